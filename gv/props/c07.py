"""C07 — order_gfa and GFA I/O preserve the graph.

R07.1  orientation tables are inverse: the four literal L-line emitters of write_gfa (with their guards)
       invert the reader's table E_DIR on every row
R07.2  S before L in write_gfa and in the complete-file concatenation
R07.3  (BO, NO) order key: both sort keys numeric
R07.4  tag fields are split with a bound wherever the delimiter belongs to the value language
R07.5  CSV: one row per node of the component, BO/NO of the row are the values stored on the node
R07.6  adjacency symmetric on load (R15.2) and links resolved after all segments (R06.6)
R07.7  call conformance of the writer wrappers (bound-method calls do not pass self twice)
R07.8  the GFA tag grammar accepts every SAM tag name ([A-Za-z][A-Za-z0-9])
R07.9  node serialisation: S line = id, sequence or '*', then every stored tag as TAG:TYPE:VALUE
"""

from __future__ import annotations

import ast

from ..core import AnalysisError, const_value, names_in, norm, walk_own, walk_stmts
from ..paths import enum_paths, canon_test
from .. import relang, tmpl
from . import gfa_common as gc
from . import ordergfa_common as oc
from . import c15, c06
from .c09 import guards_of
from .common import key_of

META = {
    "explanation": "Static decision of the GFA reader/writer agreement: the reader's link-orientation table E_DIR ((o1,o2) -> (side1, side2)) and the writer's "
    "four literal L-line emitters, each with the guards that select it (which adjacency set is iterated, which far side is tested), are "
    "extracted as tables and composed: writer o reader must be the identity on all four orientation combinations; all S-line writes precede "
    "all L-line writes on the handle, and the complete-file concatenation copies S lines of all chromosomes before L lines; both sort keys "
    "of the (BO, NO) ordering are numeric; every split of TAG:TYPE:VALUE on ':' is bounded to two splits because ':' belongs to the value "
    "language of the repository's own tag grammar; the tag-name class of that grammar equals SAM's; the S-line serialiser emits id, "
    "sequence and every stored tag; the CSV row's BO/NO are the values stored on the node in the same iteration; wrapper calls conform to "
    "the callee's signature.  Not decided: file-level equality on all GFAs (duplicate S ids, record types other than S/L are dropped by design).",
    "technique": "static analysis: literal-table extraction and composition, write-order dominance, regex character-class facts, call-signature conformance",
    "exhaustive": True,
}


def check(ctx):
    g = gc.build(ctx, "R07")
    ctx.run(r07_1, g)
    ctx.run(r07_2, g)
    ctx.run(r07_3, g)
    ctx.run(r07_4, g)
    ctx.run(r07_5)
    ctx.run(c15.r15_2, g)
    ctx.run(c06.r06_6)
    ctx.run(r07_7, g)
    ctx.run(r07_8, g)
    ctx.run(r07_9, g)
    ctx.run(r07_10, g)
    ctx.run(r07_11, g)
    ctx.run(r07_13, g, _independent=True)
    def _numbering(ctx_):
        # the BO ranges of successive chromosomes are disjoint and ascending (else the S lines of the complete file are
        # not in (BO, NO) order): the numbering loop and the counter it returns, C06's rule
        m_ = oc.build(ctx_, "R06.4")
        info_ = c06.numbering_loop(ctx_, m_)
        c06.r06_1(ctx_, m_, info_)  # (finds the BO variable of the numbering loop)
        c06.r06_2_4(ctx_, m_, info_)

    ctx.run(_numbering, _independent=True)
    ctx.run(c06.r06_4_caller, oc.build(ctx, "R06.4"))  # (BO, NO) order of the written S lines: the tags written are those computed, the counter is not disturbed
    ctx.not_decided += [
        "file-level equality on every GFA (tags round-trip through a dict: a repeated tag name on one S line keeps the last value)",
        "uniqueness of component names in name_comps (two components with the same majority SN overwrite each other)",
    ]
    # mechanisms this property rests on (see shared.py): a change there is reported here as well
    from . import shared as _sh

    ctx.run(_sh.r07_12, g)  # C07 owns the loader rules
    ctx.run_shared(_sh.graph_loader)
    ctx.run_shared(_sh.cli_layer, "gaftools.cli.order_gfa")


def r07_1(ctx, g):
    wf = g.write_gfa
    # L emitters, path by path through each per-neighbour loop: "\t".join(["L", n1, o1, n2, o2, overlap] + tags) where the two
    # orientation items are literals, or names bound to a literal on that path / once in the function
    from ..core import local_defs

    ld = local_defs(wf.node)

    def join_items(node):
        for c in ast.walk(node):
            if isinstance(c, ast.Call) and isinstance(c.func, ast.Attribute) and c.func.attr == "join" and c.args:
                a = c.args[0]
                items = a.left.elts if isinstance(a, ast.BinOp) and isinstance(a.left, ast.List) else (a.elts if isinstance(a, ast.List) else None)
                if items and const_value(items[0]) == "L" and len(items) >= 6:
                    return c, items
        return None

    loops = [l for l in walk_own(wf.node) if isinstance(l, ast.For) and norm(l.iter).endswith((".start", ".end"))]
    writer = {}
    bad = None
    n_emit = 0
    for loop in loops:
        side1 = 0 if norm(loop.iter).endswith(".start") else 1
        nb = norm(loop.target)
        own = norm(loop.iter).rsplit(".", 1)[0]
        # `node = self.nodes[n1]; for n in node.start:` — a local for the node object of the outer iteration
        outer = [o for o in walk_own(wf.node) if isinstance(o, ast.For) and o is not loop and any(x is loop for x in o.body)]
        if outer and "[" not in own:
            from ..core import make_resolver as _mr

            own = norm(_mr(outer[0].body)(loop.iter)).rsplit(".", 1)[0]
        for p in enum_paths(loop.body, rule="R07.1", where=wf.where(loop)):
            em = [(e, join_items(e.node)) for e in p.events if e.kind == "stmt" and join_items(e.node) is not None]
            if not em:
                continue
            if len(em) > 1:
                bad = (em[0][1][0], "two L lines are built for one adjacency entry on one path")
                break
            n_emit += 1
            ev, (c, items) = em[0]
            bound = {}
            for e in p.events:
                if e is ev:
                    break
                if e.kind == "stmt" and isinstance(e.node, ast.Assign) and len(e.node.targets) == 1 and isinstance(e.node.targets[0], ast.Name):
                    bound[e.node.targets[0].id] = e.node.value

            def lit(x):
                if isinstance(x, ast.Constant):
                    return x.value
                if isinstance(x, ast.Name):
                    d = bound.get(x.id)
                    if d is None:
                        ds = [v for v in ld.get(x.id, []) if v is not None]
                        d = ds[0] if len(ds) == 1 else None
                    if isinstance(d, ast.Constant):
                        return d.value
                return None

            o1, o2 = lit(items[2]), lit(items[4])
            n1, n2 = norm(items[1]), norm(items[3])
            side2 = None
            for e in p.events:
                if e.kind == "test":
                    s_, sp = canon_test(e.node, e.pol)
                    if s_ == f"{nb}[1] == 0":
                        side2 = 0 if sp else 1
                    elif s_ == f"{nb}[1] == 1":
                        side2 = 1 if sp else 0
            if o1 is None or o2 is None:
                # computed signs: evaluated in every world (side at which the link enters the neighbour) x (is the
                # neighbour the node itself?); the spelling may depend on the first only
                from ..core import make_resolver
                from .. import ordtab as _ot

                res_ = make_resolver(loop.body)
                n1_txt = n1[4:-1] if n1.startswith("str(") else n1
                worlds = {}
                try:
                    for s2_ in (0, 1):
                        for self_ in (False, True):
                            def atom_of(e_, s2_=s2_, self_=self_):
                                t_ = norm(e_)
                                if t_ == f"{nb}[1]":
                                    return "far"
                                if t_ == f"{nb}[0]":
                                    return "nbid"
                                if t_ == n1_txt:
                                    return "own"
                                return None
                            env_ = {"far": s2_, "nbid": 1 if self_ else 2, "own": 1}
                            ev_ = _ot.Evaluator(env_, atom_of, 1)
                            consistent = all(bool(ev_.truth(e.node)) == e.pol for e in p.events if e.kind == "test" and (f"{nb}[1]" in norm(e.node) or f"{nb}[0] ==" in norm(e.node)))
                            if not consistent:
                                continue
                            worlds[(s2_, self_)] = (ev_.expr(res_(items[2])), ev_.expr(res_(items[4])))
                except _ot.Unsupported as ex_:
                    raise AnalysisError("R07.1", wf.where(c), f"the orientation signs of an L line are not literals on this path and cannot be evaluated ({ex_})")
                for (s2_, self_), sp_ in sorted(worlds.items()):
                    if writer.get((side1, s2_), sp_) != sp_:
                        bad = (c, f"the signs written for a link that enters its neighbour at side {s2_} depend on something else than the two sides ({writer[(side1, s2_)]} vs {sp_}" + (", here: on whether the neighbour is the node itself)" if True else ")"))
                        break
                    writer[(side1, s2_)] = sp_
                if bad:
                    break
                continue
            if side2 is None:
                bad = (c, "the emitter is not selected by a test of the neighbour's side")
                break
            if writer.get((side1, side2), (o1, o2)) != (o1, o2):
                bad = (c, f"two different spellings for the side pair {(side1, side2)}")
                break
            writer[(side1, side2)] = (o1, o2)
            ok_nodes = n2 in (f"str({nb}[0])", f"{nb}[0]") and own.endswith(f"[{n1[4:-1] if n1.startswith('str(') else n1}]")
            if not ok_nodes:
                bad = (c, f"the L line names `{n1}` and `{n2}`, not the iterated node and its neighbour")
                break
        if bad:
            break
    if bad is None:
        ctx.require_count("R07.1", n_emit, 4, wf.where(), "literal L-line emitters of the writer")
    if bad is None:
        for (o1, o2), sides in g.edir.items():
            back = writer.get(sides)
            if back != (o1, o2):
                bad = (None, f"a link read as `{o1} {o2}` is stored as sides {sides} and written back as `{back[0]} {back[1]}`" if back else f"no emitter for sides {sides}")
                break
    ctx.check(bad is None, "R07.1", wf.where(), "writer o reader = identity on link orientations: for each of the four combinations the L line written from the stored side pair spells the orientations that were read", key_of(wf, f"orientation-inverse:{bad[1] if bad else ''}"), reader={f"{k[0]}{k[1]}": v for k, v in g.edir.items()}, writer={str(k): v for k, v in writer.items()}, **({"why": bad[1]} if bad else {}))
    # edge tags looked up with the key the reader stores: (n1, side1, neighbour, side2)
    looks = [s for s in walk_own(wf.node) if isinstance(s, ast.Subscript) and norm(s.value) == "self.edge_tags" and isinstance(s.slice, ast.Tuple)]
    if len(looks) < 2:
        raise AnalysisError("R07.1", wf.where(), f"cannot find the two look-ups of a link's tags in the writer (found {len(looks)})")
    ok = True  # every look-up (the writer's branches may repeat the two loops) must use the stored key
    for s in looks:
        e = [norm(x) for x in s.slice.elts]
        loop = next((l for l in walk_own(wf.node) if isinstance(l, ast.For) and any(x is s for x in ast.walk(l)) and norm(l.iter).endswith((".start", ".end"))), None)
        if loop is None:
            ok = False
            continue
        side1 = "0" if norm(loop.iter).endswith(".start") else "1"
        nb = norm(loop.target)
        ok = ok and e[1] == side1 and e[2] == f"{nb}[0]" and e[3] == f"{nb}[1]"
    ctx.check(ok, "R07.1", wf.where(), "link tags are looked up under (node, its side, neighbour, neighbour's side): the key add_edge stores", key_of(wf, f"edge-tag-lookup:{[norm(s.slice) for s in looks]}"))
    # reader: overlap parsed as int of all but the last character; tags = columns 7..; all five link columns passed in order
    rg = g.read_graph
    call = [c for c in walk_own(rg.node) if isinstance(c, ast.Call) and isinstance(c.func, ast.Attribute) and c.func.attr == "add_edge"]
    ok_r = False
    if len(call) != 1:
        raise AnalysisError("R07.1", rg.where(), f"expected one add_edge call in the reader, found {len(call)}")
    if not (len(call[0].args) == 2 and isinstance(call[0].args[0], ast.Starred) and isinstance(call[0].args[0].value, ast.Name)):
        # explicit arguments: each must be a column of the split L line; without the `*columns, tags` idiom the columns
        # cannot be traced here
        raise AnalysisError("R07.1", rg.where(call[0]), "the reader hands the link columns to add_edge one by one (not as `*columns, tags`): their provenance is not traced")
    if len(call) == 1 and len(call[0].args) == 2 and isinstance(call[0].args[0], ast.Starred) and isinstance(call[0].args[0].value, ast.Name):
        ev_ = call[0].args[0].value.id
        # a record built from the columns (`link = Link(*cols)`; a namedtuple keeps the order) stands for the columns
        for _ in range(2):
            wrap = [st.value for st in walk_own(rg.node) if isinstance(st, ast.Assign) and norm(st.targets[0]) == ev_ and isinstance(st.value, ast.Call) and len(st.value.args) == 1 and isinstance(st.value.args[0], ast.Starred) and isinstance(st.value.args[0].value, ast.Name) and not st.value.keywords]
            if len(wrap) == 1 and isinstance(rg.module.consts.get(norm(wrap[0].func)), ast.Call) and norm(rg.module.consts[norm(wrap[0].func)].func).endswith("namedtuple"):
                ev_ = wrap[0].args[0].value.id
        sl = [st for st in walk_own(rg.node) if isinstance(st, ast.Assign) and norm(st.targets[0]) == ev_ and isinstance(st.value, ast.Subscript) and isinstance(st.value.slice, ast.Slice)]
        a1 = call[0].args[1]
        if isinstance(a1, ast.BoolOp) and isinstance(a1.op, ast.Or) and isinstance(a1.values[0], ast.Name):
            a1 = a1.values[0]  # `tags or [0]`: the placeholder for a link without tags
        tags_v = norm(a1)
        tg = [st for st in walk_own(rg.node) if isinstance(st, ast.Assign) and norm(st.targets[0]) == tags_v and isinstance(st.value, ast.Subscript) and isinstance(st.value.slice, ast.Slice)]
        if len(sl) == 1 and tg:
            s0 = sl[0].value
            base = norm(s0.value)
            ok_r = const_value(s0.slice.lower) == 1 and const_value(s0.slice.upper) == 6 and s0.slice.step is None and norm(tg[0].value) == f"{base}[6:]"
            # the base is the tab-split L line
            bd = [st for st in walk_own(rg.node) if isinstance(st, ast.Assign) and norm(st.targets[0]) == base and ".split('\\t')" in norm(st.value)]
            ok_r = ok_r and bool(bd)
    if not ok_r and not (len(sl) == 1 and tg):
        raise AnalysisError("R07.1", rg.where(call[0]), "cannot trace the columns handed to add_edge back to a slice of the split L line")
    ctx.check(ok_r, "R07.1", rg.where(), "the reader passes (node1, orientation1, node2, orientation2, overlap) of the L line, in file order, to add_edge", key_of(rg, "reader-args"))


def stmt_of(root, target):
    best = None
    for st in walk_stmts(root.body):
        if any(x is target for x in ast.walk(st)) and not isinstance(st, (ast.For, ast.While, ast.If, ast.Try, ast.With)):
            best = st
    return best


def r07_2(ctx, g):
    wf = g.write_gfa
    body = wf.node.body
    # the S pass and the L pass: loops over the same node list in one block (the function body, or a `with handle:` in it)
    for blk_ in [body] + [w_.body for w_ in walk_stmts(body) if isinstance(w_, (ast.With, ast.Try))]:
        if any(isinstance(l, ast.For) and any(isinstance(c, ast.Call) and isinstance(c.func, ast.Attribute) and c.func.attr == "to_gfa_line" for c in ast.walk(l)) for l in blk_):
            body = blk_
            break
    s_loops = [l for l in body if isinstance(l, ast.For) and any(isinstance(c, ast.Call) and isinstance(c.func, ast.Attribute) and c.func.attr == "to_gfa_line" for c in ast.walk(l))]
    l_loops = [l for l in body if isinstance(l, ast.For) and any(isinstance(c, ast.Constant) and c.value == "L" for c in ast.walk(l))]
    if not s_loops or not l_loops:
        raise AnalysisError("R07.2", wf.where(), f"cannot find the S pass ({len(s_loops)}) and the L pass ({len(l_loops)}) of the writer as loops of one block")
    ok = len(s_loops) == 1 and len(l_loops) == 1 and body.index(s_loops[0]) < body.index(l_loops[0]) and norm(s_loops[0].iter) == norm(l_loops[0].iter) and not any(isinstance(c, ast.Constant) and c.value == "L" for c in ast.walk(s_loops[0]))
    ctx.check(ok, "R07.2", wf.where(), "write_gfa writes the S lines of all nodes in one pass and only then the L lines, over the same (ordered) node list", key_of(wf, f"S-before-L:{len(s_loops)}:{len(l_loops)}"))
    if s_loops:
        it = norm(s_loops[0].iter)
        # ordered list when order_bo
        d = [st for st in walk_stmts(wf.node.body) if isinstance(st, ast.Assign) and norm(st.targets[0]) == it]
        ok2 = any("sort_bo_no" in norm(st.value) and any(canon_test(t, pol) == ("order_bo", True) for t, pol in guards_of(wf.node, st)) for st in d)
        ctx.check(ok2, "R07.2", wf.where(), "with order_bo the node list written is the (BO, NO)-sorted one", key_of(wf, "ordered-list"))
        # every S line: one write of to_gfa_line + newline
        w = [c for c in ast.walk(s_loops[0]) if isinstance(c, ast.Call) and isinstance(c.func, ast.Attribute) and c.func.attr == "write"]
        ctx.check(len(w) == 1, "R07.2", wf.where(s_loops[0]), "one S line per node", key_of(wf, "one-S-per-node"))
    # concatenation in run_order_gfa: an S pass over all per-chromosome files, then an L pass
    m = oc.build(ctx, "R07.2")
    run = m.run
    repo = ctx.repo

    def pass_of(node):
        """('S'|'L'|other letter, files expr) if `node` copies the lines with one record letter of every file of a list
        to the output, directly (for f in FILES: with open(f): for l: if l.startswith(X): out.write(l)) or through a
        helper with that shape called as helper(FILES, out, X); None otherwise."""
        if isinstance(node, ast.For):
            tests = [c for c in ast.walk(node) if isinstance(c, ast.Call) and isinstance(c.func, ast.Attribute) and c.func.attr == "startswith"]
            writes = [c for c in ast.walk(node) if isinstance(c, ast.Call) and isinstance(c.func, ast.Attribute) and c.func.attr in ("write", "writelines", "append", "extend")]
            if len(tests) == 1 and len(writes) == 1 and writes[0].func.attr == "write" and isinstance(tests[0].args[0], ast.Constant):
                return (tests[0].args[0].value, norm(node.iter))
            return None
        if isinstance(node, ast.Expr) and isinstance(node.value, ast.Call):
            h = repo.resolve_call(run, node.value)
            if h is not None and len(h.node.body) >= 1:
                loops = [x for x in h.node.body if isinstance(x, ast.For)]
                if len(loops) == 1:
                    inner = pass_of_helper(h, loops[0])
                    if inner is not None:
                        files_p, letter_p = inner
                        params = h.params
                        args = {p_: a for p_, a in zip(params, node.value.args)}
                        for k in node.value.keywords:
                            args[k.arg] = k.value
                        if files_p in args and letter_p in args and isinstance(args[letter_p], ast.Constant):
                            return (args[letter_p].value, norm(args[files_p]))
        return None

    def pass_of_helper(h, loop):
        tests = [c for c in ast.walk(loop) if isinstance(c, ast.Call) and isinstance(c.func, ast.Attribute) and c.func.attr == "startswith"]
        writes = [c for c in ast.walk(loop) if isinstance(c, ast.Call) and isinstance(c.func, ast.Attribute) and c.func.attr in ("write", "writelines", "append", "extend")]
        if len(tests) == 1 and len(writes) == 1 and writes[0].func.attr == "write" and isinstance(tests[0].args[0], ast.Name) and tests[0].args[0].id in h.params and isinstance(loop.iter, ast.Name) and loop.iter.id in h.params:
            return (loop.iter.id, tests[0].args[0].id)
        return None

    withs = [w for w in walk_own(run.node) if isinstance(w, ast.With) and any(pass_of(st) is not None and pass_of(st)[0] in ("S", "L") for st in w.body)]
    if not withs:
        # not two recognisable passes: is there a single loop over the files that writes S lines and, inside the same
        # per-file loop, also writes L lines (directly or from a buffer)?  Then L lines precede the S lines of later files.
        for w0 in [x for x in walk_own(run.node) if isinstance(x, ast.With)]:
            for l0 in [x for x in w0.body if isinstance(x, ast.For)]:
                lets = {const_value(c.args[0]) for c in ast.walk(l0) if isinstance(c, ast.Call) and isinstance(c.func, ast.Attribute) and c.func.attr == "startswith" and c.args}
                outs = [c for c in ast.walk(l0) if isinstance(c, ast.Call) and isinstance(c.func, ast.Attribute) and c.func.attr in ("write", "writelines")]
                if {"S", "L"} <= lets and len(outs) >= 2:
                    ctx.violated("R07.2", run.where(l0), "one loop over the per-chromosome files writes both S lines and L lines: the L lines of one chromosome precede the S lines of the next (and a buffer that is not emptied repeats links)", key_of(run, "concat-single-pass"))
                    return
                if {"S", "L"} <= lets:
                    # one pass per file with the L lines buffered and written after the loop: the buffer must collect the
                    # links of *all* files, i.e. be created before the loop over the files, not once per file
                    bufs = {norm(c.func.value) for c in ast.walk(l0) if isinstance(c, ast.Call) and isinstance(c.func, ast.Attribute) and c.func.attr in ("append", "extend")}
                    resets = [st for st in ast.walk(l0) if isinstance(st, ast.Assign) and norm(st.targets[0]) in bufs and isinstance(st.value, (ast.List, ast.Call))]
                    if bufs and resets:
                        ctx.violated("R07.2", run.where(resets[0]), f"the buffer `{norm(resets[0].targets[0])}` that collects the L lines is emptied for every per-chromosome file: only the links of the last chromosome reach the complete file", key_of(run, "concat-buffer-reset-per-file"))
                        return
        from .shared import none_slice_bounds

        if none_slice_bounds(ctx, run, "R07.2"):
            return
        raise AnalysisError("R07.2", run.where(), "cannot find the concatenation of the per-chromosome GFA files (S pass / L pass)")
    w = withs[0]
    seq = [pass_of(st) for st in w.body]
    letters = [x[0] for x in seq if x is not None and x[0] in ("S", "L")]
    files = {x[1] for x in seq if x is not None and x[0] in ("S", "L")}
    unknown_writes = [st for st, x in zip(w.body, seq) if x is None and any(isinstance(c, ast.Call) and isinstance(c.func, ast.Attribute) and c.func.attr in ("write", "writelines") for c in ast.walk(st))]
    okc = letters == ["S", "L"] and len(files) == 1 and not unknown_writes
    ctx.check(okc, "R07.2", run.where(w), "the complete file copies the S lines of every per-chromosome file first and the L lines afterwards, each pass filtering on its own record letter and writing directly", key_of(run, f"concat:{letters}:{sorted(files)}:{len(unknown_writes)}"), passes=letters)
    # every per-chromosome file that is written is also registered for the concatenation: the list the passes iterate
    # receives, in the chromosome loop, the very path that write_gfa is given
    cl = m.loop
    wcalls = [c for c in ast.walk(cl) if isinstance(c, ast.Call) and isinstance(c.func, ast.Attribute) and c.func.attr in ("write_gfa", "write_graph")]
    for fl in sorted(files):
        apps = [c for c in ast.walk(cl) if isinstance(c, ast.Call) and isinstance(c.func, ast.Attribute) and c.func.attr == "append" and norm(c.func.value) == fl and c.args]
        if not wcalls:
            raise AnalysisError("R07.2", run.where(cl), "cannot find where the per-chromosome GFA is written in the chromosome loop")
        wc = wcalls[0]
        out_arg = next((k.value for k in wc.keywords if k.arg == "output_file"), None)
        if out_arg is None:
            cal = repo.resolve_call(run, wc)
            ba = repo.bound_args(cal, wc) if cal is not None and hasattr(repo, "bound_args") else {}
            out_arg = (ba or {}).get("output_file")
        if out_arg is None:
            raise AnalysisError("R07.2", run.where(wc), "cannot find the path the per-chromosome GFA is written to")
        if not apps:
            # the list may be derived after the loop from another registry (`out_gfa = [g for g, _ in written]`)
            derived = [st for st in walk_stmts(run.node.body) if isinstance(st, ast.Assign) and norm(st.targets[0]) == fl and not (isinstance(st.value, ast.List) and not st.value.elts)]
            if derived:
                raise AnalysisError("R07.2", run.where(derived[0]), f"the list `{fl}` the complete file is put together from is derived (`{norm(derived[0].value)[:60]}`), not filled in the chromosome loop: its contents are not traced")
            ctx.violated("R07.2", run.where(cl), f"the per-chromosome files are written but never added to `{fl}`, the list the complete file is put together from: the complete file lacks the chromosomes", key_of(run, f"concat-list-not-filled:{fl}"))
        else:
            # a registry of (gfa, csv) pairs: the path is the first element of the appended tuple
            ok_app = all(norm(a.args[0]) == norm(out_arg) or (isinstance(a.args[0], ast.Tuple) and a.args[0].elts and norm(a.args[0].elts[0]) == norm(out_arg)) for a in apps) and len(apps) == 1
            ctx.check(ok_app, "R07.2", run.where(apps[0]), f"the path written by write_gfa (`{norm(out_arg)}`) is the one registered in `{fl}` for the concatenation, once per chromosome", key_of(run, f"concat-list-path:{[norm(a.args[0]) for a in apps]}"))
    # the files are concatenated in the order in which the chromosomes were written (= BO order): the list of files is
    # not re-ordered or de-duplicated through a set between the chromosome loop and the concatenation
    for fl in sorted(files):
        for st in walk_own(run.node):
            if isinstance(st, ast.Assign) and norm(st.targets[0]) == fl and isinstance(st.value, ast.Call):
                v = norm(st.value)
                if fl in names_in(st.value) and (v.startswith(("sorted(", "set(", "list(set(", "reversed(", "list(reversed(")) or "set(" in v):
                    ctx.violated("R07.2", run.where(st), f"`{norm(st)}` re-orders the per-chromosome files by name before they are concatenated: the S lines of the complete file are no longer in (BO, NO) order (chr10 before chr2, or any --chromosome_order that is not alphabetical)", key_of(run, f"concat-files-reordered:{fl}"))
            if isinstance(st, ast.Expr) and isinstance(st.value, ast.Call) and isinstance(st.value.func, ast.Attribute) and st.value.func.attr in ("sort", "reverse") and norm(st.value.func.value) == fl:
                ctx.violated("R07.2", run.where(st), f"`{norm(st)}` re-orders the per-chromosome files before they are concatenated: the S lines of the complete file are no longer in (BO, NO) order", key_of(run, f"concat-files-reordered:{fl}"))


def r07_3(ctx, g):
    repo = ctx.repo
    f = repo.func("gaftools.gfa", "GFA.sort_bo_no", "R07.3")
    ctx.analysed_func(f)
    from ..core import tail_inlined

    f = tail_inlined(repo, f, keep=lambda c: not c.name.startswith("_") or c.name.startswith("__"))  # a private bucketing helper is read in place
    sorts = [c for c in walk_own(f.node) if isinstance(c, ast.Call) and isinstance(c.func, ast.Name) and c.func.id == "sorted"]
    if len(sorts) == 1:
        # one sort on a key that packs both tags into a number is not the (BO, NO) order
        key = [k.value for k in sorts[0].keywords if k.arg == "key"]
        kf = repo.resolve_callable(f, key[0]) if key and not isinstance(key[0], ast.Lambda) else None
        body = key[0].body if key and isinstance(key[0], ast.Lambda) else None
        if kf is not None:
            kr = [r for r in walk_own(kf.node) if isinstance(r, ast.Return) and r.value is not None]
            body = kr[0].value if len(kr) == 1 else None
        if isinstance(body, ast.BinOp) and isinstance(body.op, ast.Add) and any(isinstance(x, ast.BinOp) and isinstance(x.op, (ast.Mult, ast.LShift)) and any(isinstance(y, ast.Constant) for y in (x.left, x.right)) for x in (body.left, body.right)) and "tags['BO']" in norm(body) and "tags['NO']" in norm(body):
            ctx.violated("R07.3", f.where(sorts[0]), f"the nodes are sorted by the single number `{norm(body)[:70]}`: once NO reaches the multiplier the key of (BO, NO) runs into the next BO, so the S lines leave (BO, NO) order for large bubbles", key_of(f, f"packed-key:{norm(body)[:50]}"))
            return
    ctx.require_count("R07.3", len(sorts), 2, f.where(), "sorted() calls (BO buckets, NO inside a bucket)")
    for c in sorts:
        key = [k.value for k in c.keywords if k.arg == "key"]
        rev = [k for k in c.keywords if k.arg == "reverse"]
        numeric = bool(key) and (norm(key[0]) == "int" or (isinstance(key[0], ast.Lambda) and norm(key[0].body).startswith("int(")))
        if key and not numeric and isinstance(key[0], (ast.Name, ast.Attribute)):
            # a named key function (nested def, method, module function) with a single `return int(...)`
            kf = repo.resolve_callable(f, key[0])
            if kf is not None:
                kr = [r for r in walk_own(kf.node) if isinstance(r, ast.Return) and r.value is not None]
                from ..core import resolve_expr

                numeric = len(kr) == 1 and resolve_expr(kf.node, kr[0].value).startswith("int(")
        ctx.check(numeric and not rev, "R07.3", f.where(c), "the sort key is numeric (int): a tag value read from a file is a string and '10' < '9' lexicographically", key_of(f, f"sort-key:{norm(c)[:80]}"), call=norm(c)[:100])
    # bucket by BO, inside by NO
    src = norm(f.node)
    ctx.check("tags['BO']" in src and "tags['NO']" in src, "R07.3", f.where(), "nodes are bucketed by BO and ordered by NO inside a bucket", key_of(f, "bo-then-no"))


def r07_4(ctx, g):
    repo = ctx.repo
    from ..core import tag_grammar

    um, _trn, tr, _tyn, _ty, _ict = tag_grammar(repo, "R07.4")
    items = relang.flatten(relang.parse(tr.value))
    core, _, _ = relang.strip_anchors(items)
    val = core[-1]
    colon_in_value = val[0] == "rep" and val[3][0][0] == "char" and ord(":") in val[3][0][1]
    n = 0
    for f in repo.all_funcs():
        if f.module.name not in ("gaftools.gfa", "gaftools.utils"):
            continue
        for c in walk_own(f.node):
            if isinstance(c, ast.Call) and isinstance(c.func, ast.Attribute) and c.func.attr in ("split", "rsplit") and c.args and const_value(c.args[0]) == ":":
                recv = norm(c.func.value)
                if "tag" not in recv:
                    continue
                n += 1
                bound = const_value(c.args[1], None) if len(c.args) > 1 else next((const_value(k.value) for k in c.keywords if k.arg == "maxsplit"), None)
                ok = (not colon_in_value) or (c.func.attr == "split" and bound == 2)
                ctx.check(ok, "R07.4", f.where(c), "TAG:TYPE:VALUE is split with maxsplit=2: ':' belongs to the value language of the repository's tag grammar, so an unbounded split truncates or breaks the value", key_of(f, f"tag-split:{norm(c)}"), call=norm(c), colon_in_value_language=colon_in_value)
    ctx.require_count("R07.4", n, 2, "gaftools/", "splits of a tag field on ':'")
    # the stored tag is (type, value) with value = third piece, key = first piece
    an = g.add_node
    st = [s for s in walk_own(an.node) if isinstance(s, ast.Assign) and isinstance(s.targets[0], ast.Subscript) and ".tags" in norm(s.targets[0].value)]
    from ..core import make_resolver

    res_ = make_resolver(an.node.body)
    ok = False
    if len(st) != 1:
        raise AnalysisError("R07.4", an.where(), f"cannot find the one place where add_node stores a tag ({len(st)} stores into a .tags mapping)")
    if len(st) == 1:
        k_txt = norm(res_(st[0].targets[0].slice))
        v_txt = norm(res_(st[0].value))
        if k_txt.endswith("[0]"):
            base = k_txt[:-3]
            ok = v_txt == f"({base}[1], {base}[2])" and (base.isidentifier() or ".split(':'" in base)
    ctx.check(ok, "R07.4", an.where(), "a tag is stored as name -> (type, value) from the three pieces", key_of(an, f"tag-store:{[norm(s) for s in st]}"))


def r07_5(ctx):
    m = oc.build(ctx, "R07.5")
    run = m.run
    node_loops = [n for n in m.success_body if isinstance(n, ast.For)]
    if not node_loops:
        raise AnalysisError("R07.5", run.where(m.success_if), "no loop over the component's nodes in the success branch")
    nl = node_loops[0]
    paths = enum_paths(nl.body, rule="R07.5", where=run.where(nl))
    bad = None
    loop_locals = {st.targets[0].id for st in walk_stmts(nl.body) if isinstance(st, ast.Assign) and len(st.targets) == 1 and isinstance(st.targets[0], ast.Name) and isinstance(st.value, (ast.List, ast.Tuple, ast.BinOp, ast.JoinedStr, ast.Call))}
    color_holes = []
    for p in paths:
        rows = [e.node.value for e in p.events if e.kind == "stmt" and isinstance(e.node, ast.Expr) and isinstance(e.node.value, ast.Call) and isinstance(e.node.value.func, ast.Attribute) and e.node.value.func.attr == "write"]
        if p.term not in ("fall", "continue") or len(rows) != 1:
            bad = (p, f"{len(rows)} CSV rows for one node")
            break
        b_ = tmpl.Builder(track_vars=sorted(loop_locals))
        for e in p.events:
            if e.kind == "stmt" and isinstance(e.node, ast.Expr) and e.node.value is rows[0]:
                break
            b_.feed(e)
        parts = tmpl.of_expr(rows[0].args[0], b_._env())
        holes = [norm(h[1]) for h in tmpl.holes(parts)]
        color_holes.append([h[1] for h in tmpl.holes(parts)][1] if len(holes) == 6 else None)
        stores = {const_value(e.node.targets[0].slice): norm(e.node.value.elts[1]) for e in p.events if e.kind == "stmt" and isinstance(e.node, ast.Assign) and isinstance(e.node.targets[0], ast.Subscript) and ".tags" in norm(e.node.targets[0].value) and isinstance(e.node.value, ast.Tuple)}
        if len(holes) != 6 and any("join(" in h_ for h_ in holes):
            raise AnalysisError("R07.5", run.where(nl), f"the CSV row is joined from a collection this rule does not read element by element (`{holes[0][:60]}`)")
        if len(holes) != 6 or holes[0] != norm(nl.target) or holes[4] != stores.get("BO") or holes[5] != stores.get("NO"):
            bad = (p, f"CSV row {holes} does not carry the node id and the BO/NO values stored on the node ({stores})")
            break
        lits = "".join(x[1] for x in parts if x[0] == "lit")
        if lits != ",,,,,\n":
            bad = (p, f"CSV row separators are {lits!r}")
            break
    ctx.check(bad is None, "R07.5", run.where(nl), "every node of the component writes exactly one CSV row (name, role colour, SN, SO, BO, NO) whose BO/NO are the values stored on the node in the same iteration", key_of(run, f"csv-row:{bad[1] if bad else ''}"), paths=len(paths), **({"path": bad[0].show(), "why": bad[1]} if bad else {}))
    # role column from membership in the scaffold / inside sets returned by the ordering function
    # the membership tests that decide it: in the loop body, or in the helper that computes the colour hole
    tests = []
    mapping = {}
    ch = next((h for h in color_holes if h is not None), None)
    helper = ctx.repo.resolve_call(run, ch) if isinstance(ch, ast.Call) else None
    if helper is not None:
        ctx.analysed_func(helper)
        mapping = {p_: norm(a) for p_, a in zip(helper.params, ch.args)}
        for k in ch.keywords:
            mapping[k.arg] = norm(k.value)
        region = list(walk_own(helper.node))
    else:
        region = [x for st in nl.body for x in ast.walk(st)]
    for x in region:
        if isinstance(x, ast.Compare) and len(x.ops) == 1 and isinstance(x.ops[0], (ast.In, ast.NotIn)) and isinstance(x.left, ast.Name) and isinstance(x.comparators[0], ast.Name):
            tests.append((mapping.get(x.left.id, x.left.id), mapping.get(x.comparators[0].id, x.comparators[0].id)))
    if not tests:
        raise AnalysisError("R07.5", run.where(nl), "cannot find how the role colour of a CSV row is decided")
    ok = all(l == norm(nl.target) and r in m.targets for l, r in tests)
    ctx.check(ok, "R07.5", run.where(nl), "the role column derives from membership in the scaffold / bubble sets returned by the decomposition", key_of(run, f"csv-role:{tests}"))
    it = norm(nl.iter)
    comp = norm(m.arg_of_param.get(m.dec.params[1]))
    ctx.check(comp in it, "R07.5", run.where(nl), "the CSV loop runs over all nodes of the component", key_of(run, f"csv-iter:{it}"))
    # the GFA written for the chromosome is the same component, ordered
    wr = [c for c in ast.walk(m.success_if) if isinstance(c, ast.Call) and isinstance(c.func, ast.Attribute) and c.func.attr == "write_gfa"]
    kw = {k_: norm(v_) for k_, v_ in (ctx.repo.bound_args(run, wr[0]) or {}).items()} if wr else {}
    ctx.check(bool(wr) and kw.get("set_of_nodes") == comp and kw.get("order_bo") == "True" and kw.get("append") in ("False", None), "R07.5", run.where(m.success_if), "the per-chromosome GFA is written for the same component, (BO, NO)-ordered, into a fresh file", key_of(run, f"write-gfa-args:{kw}"))


def r07_7(ctx, g):
    """Every resolved call of a GFA writer/reader method: no positional argument collides with a keyword,
    no more positionals than parameters (bound-method calls must not pass the instance again)."""
    repo = ctx.repo
    n = 0
    for f in repo.all_funcs():
        for c in walk_own(f.node):
            if not isinstance(c, ast.Call):
                continue
            callee = repo.resolve_call(f, c)
            if callee is None or callee.module.name != "gaftools.gfa" or callee.name.startswith("__"):
                continue
            if any(isinstance(a, ast.Starred) for a in c.args) or any(k.arg is None for k in c.keywords):
                continue
            params = callee.params
            bound = isinstance(c.func, ast.Attribute) and callee.cls is not None and not any(norm(d) == "staticmethod" for d in callee.node.decorator_list)
            avail = params[1:] if bound else params
            n += 1
            pos = len(c.args)
            kws = [k.arg for k in c.keywords]
            coll = [k for k in kws if k in avail[:pos]]
            unknown = [k for k in kws if k not in avail and callee.node.args.kwarg is None]
            too_many = pos > len(avail) and callee.node.args.vararg is None
            nd = len(callee.node.args.defaults)
            required = avail[: len(avail) - nd] if nd else avail
            missing = [p for p in required[pos:] if p not in kws]
            ok = not coll and not unknown and not too_many and not missing
            if not ok:
                ctx.violated("R07.7", f.where(c), f"call `{norm(c)[:70]}` does not conform to {callee.qualname}{tuple(avail)}: " + ("; ".join(x for x in [f"positional argument collides with keyword {coll}" if coll else "", f"unknown keyword {unknown}" if unknown else "", "too many positional arguments" if too_many else "", f"missing {missing}" if missing else ""] if x)), key_of(f, f"call-arity:{norm(c)[:80]}"))
    ctx.holds("R07.7", "gaftools/", f"{n} resolved calls of gaftools.gfa functions conform to their callee's signature", calls=n)
    ctx.require_count("R07.7", n, 20, "gaftools/", "resolved calls into gaftools.gfa")


def r07_8(ctx, g):
    repo = ctx.repo
    from ..core import tag_grammar

    um, _trn, tr, tyname, ty_, ict_ = tag_grammar(repo, "R07.8")
    items = relang.flatten(relang.parse(tr.value))
    core, a0, a1 = relang.strip_anchors(items)
    letters = set(map(ord, "ABCDEFGHIJKLMNOPQRSTUVWXYZabcdefghijklmnopqrstuvwxyz"))
    digits = set(map(ord, "0123456789"))
    ok = a0 and a1 and core[0][0] == "char" and core[0][1] == letters and core[1][0] == "char" and core[1][1] == letters | digits
    ctx.check(ok, "R07.8", um.relpath, "the GFA tag grammar accepts every tag name of the form [A-Za-z][A-Za-z0-9] (as the GAF parser and the SAM specification do)", "gaftools.utils::tag-name-class", first=len(core[0][1]) if core[0][0] == "char" else None, second=len(core[1][1]) if core[1][0] == "char" else None)
    ty = ty_
    types = {const_value(k) for k in ty.keys} if isinstance(ty, ast.Dict) else set()
    tclass = core[3][1] if len(core) > 3 and core[3][0] == "char" else set()
    ctx.check(types == {chr(c) for c in tclass}, "R07.8", um.relpath, "every tag type admitted by tag_regex has a value grammar in types_regex", "gaftools.utils::types-table", types=sorted(types))
    ict = ict_
    ctx.analysed_func(ict)
    src = norm(ict.node)
    from ..core import regex_call

    pats = [rc for c in walk_own(ict.node) for rc in [regex_call(um, c)] if rc is not None]
    uses_grammar = any(rc[0] in ("match", "fullmatch") and rc[1] == tr.value and rc[2] and norm(rc[2][0]) == ict.params[0] for rc in pats)
    ctx.check(uses_grammar and f"{tyname}[" in src, "R07.8", ict.where(), "a tag is accepted iff it matches the tag grammar and its value matches the grammar of its type", key_of(ict, "is-correct-tag"))


def r07_9(ctx, g):
    repo = ctx.repo
    seqvar = "seq"
    f = repo.func("gaftools.gfa", "Node.to_gfa_line", "R07.9")
    ctx.analysed_func(f)
    ret = [r for r in walk_own(f.node) if isinstance(r, ast.Return)]
    ok = None
    if ret and isinstance(ret[-1].value, ast.Call) and norm(ret[-1].value.func) == "'\\t'.join":
        a = ret[-1].value.args[0]
        if isinstance(a, ast.BinOp) and isinstance(a.left, ast.List) and isinstance(a.right, ast.Name):
            e = [norm(x) for x in a.left.elts]
            ok = e[0] == "'S'" and e[1] == "self.id" and len(e) == 3
            seqvar = e[2] if len(e) == 3 and e[2].isidentifier() else "seq"  # the local that carries the sequence column
            tags = a.right.id
            elem = None
            kv = None
            loop = [l for l in walk_own(f.node) if isinstance(l, ast.For) and "self.tags.items()" in norm(l.iter)]
            ap = [c for l in loop for c in ast.walk(l) if isinstance(c, ast.Call) and isinstance(c.func, ast.Attribute) and c.func.attr == "append" and norm(c.func.value) == tags]
            comp = [st.value for st in walk_own(f.node) if isinstance(st, ast.Assign) and norm(st.targets[0]) == tags and isinstance(st.value, ast.ListComp)]
            if ap and not any(isinstance(x, (ast.If, ast.Continue)) for x in ast.walk(loop[0])):
                elem, kv = ap[0].args[0], [norm(x) for x in loop[0].target.elts]
            elif comp and len(comp[0].generators) == 1 and not comp[0].generators[0].ifs and norm(comp[0].generators[0].iter) == "self.tags.items()":
                elem, kv = comp[0].elt, [norm(x) for x in comp[0].generators[0].target.elts]
            if elem is None:
                ok = None
            else:
                parts = tmpl.of_expr(elem)
                k, v = kv
                ok = ok and tmpl.show(parts) == f"{{{k}}}:{{{v}[0]}}:{{{v}[1]}}"
    if ok is not None:
        # nothing else is put on the line: the list of tag columns is filled by that loop / comprehension only
        for x in walk_own(f.node):
            extra = None
            if isinstance(x, ast.Call) and isinstance(x.func, ast.Attribute) and x.func.attr in ("append", "extend", "insert") and norm(x.func.value) == tags and not any(x is c_ for c_ in ap):
                extra = norm(x)
            elif isinstance(x, ast.AugAssign) and norm(x.target) == tags:
                extra = norm(x)
            if extra:
                from .c09 import guards_of as _go

                gs_ = [norm(t_) for t_, _p in _go(f.node, stmt_of(f.node, x) if not isinstance(x, ast.AugAssign) else x)]
                ctx.violated("R07.9", f.where(x), f"`{extra[:70]}` puts a column on the S line that is not one of the segment's stored tags" + (f" (when `{gs_[0][:50]}`)" if gs_ else "") + ": the written graph carries a tag the input did not have (only BO and NO may be added, and those through the tag mapping)", key_of(f, f"S-line-extra-column:{extra[:40]}"))
    if ok is None:
        raise AnalysisError("R07.9", f.where(), "S-line serialiser is not of a recognised shape ('\\t'.join(['S', id, seq] + tags))")
    ctx.check(ok, "R07.9", f.where(), "an S line is 'S', the id, the sequence (or '*'), then every stored tag as NAME:TYPE:VALUE in stored order", key_of(f, "S-line"))
    # the sequence column: '*' exactly when without sequence / empty  (worlds over with_seq x seq-is-empty)
    from ..core import bool_table

    paths = enum_paths(f.node.body, rule="R07.9", where=f.where())
    wparam = next((p_ for p_ in f.params if p_ != "self"), "with_seq")  # the flag parameter, whatever it is called
    A_W, A_E = wparam, "self.seq == ''"
    bad = None
    for p in paths:
        seqs = [norm(e.node.value) for e in p.events if e.kind == "stmt" and isinstance(e.node, ast.Assign) and norm(e.node.targets[0]) == seqvar]
        if not seqs:
            bad = (p, "sequence column not set")
            continue
        # when every caller leaves with_seq at one constant the function is specialised on it: only that world exists
        w_values = (True, False) if wparam in names_in(f.node) else (True,)
        worlds = [(w, em) for w in w_values for em in (True, False)]
        for t, pol in p.tests():
            if isinstance(t, ast.Constant):
                if bool(t.value) != pol:
                    worlds = []
                continue
            tb = bool_table(t, [A_W, A_E])
            if tb is None:
                continue
            worlds = [wd for wd in worlds if tb[wd] == pol]
        for w, em in worlds:
            want = "self.seq" if (w and not em) else "'*'"
            if seqs[-1] != want:
                bad = (p, f"with_seq={w}, empty sequence={em}: sequence column is {seqs[-1]}, expected {want}")
    ctx.check(bad is None, "R07.9", f.where(), "the sequence column is the stored sequence, or '*' when there is none", key_of(f, f"seq-column:{bad[1] if bad else ''}"))
    # order_gfa loads sequences exactly when --with-sequence
    m = oc.build(ctx, "R07.9")
    run = m.run
    ctors = [(c, guards_of(run.node, stmt_of(run.node, c))) for c in walk_own(run.node) if isinstance(c, ast.Call) and norm(c.func) == "GFA" and (c.args or c.keywords)]
    ok = len(ctors) in (1, 2)
    if len(ctors) == 1 and not (isinstance((ctx.repo.bound_args(run, ctors[0][0]) or {}).get("low_memory"), ast.UnaryOp)):
        ok = False
    for c, gds in ctors:
        ba = ctx.repo.bound_args(run, c) or {}
        lmv = ba.get("low_memory")
        lm = const_value(lmv) if lmv is not None else None
        ws = [canon_test(t, pol)[1] for t, pol in gds if canon_test(t, pol)[0] == "with_sequence"]
        if isinstance(lmv, ast.UnaryOp) and isinstance(lmv.op, ast.Not) and norm(lmv.operand) == "with_sequence":
            continue  # low_memory=not with_sequence: the same decision, spelled as an expression
        ok = ok and ws and lm == (not ws[0])
    ctx.check(ok, "R07.9", run.where(), "order_gfa keeps sequences exactly with --with-sequence (low_memory = not with_sequence)", key_of(run, "with-sequence"))


def r07_10(ctx, g):
    """S-line parsing: id = column 2, sequence = column 3 (or '' in low-memory mode), tags = columns 4..;
    L-line overlap: read as int of all but the trailing letter, written back as str(overlap) + 'M'."""
    from ..core import resolve_expr, local_defs

    rg = g.read_graph
    calls = [c for c in walk_own(rg.node) if isinstance(c, ast.Call) and isinstance(c.func, ast.Attribute) and c.func.attr == "add_node"]
    ctx.require_count("R07.10", len(calls), 1, rg.where(), "add_node calls of the reader")
    ld = local_defs(rg.node)
    from ..core import make_resolver

    for c in calls:
        # temporaries of the enclosing block (node_id, node_tags = fields[1], fields[3:]) are looked through
        blk = next((lst for n_ in ast.walk(rg.node) for fld in ("body", "orelse") for lst in [getattr(n_, fld, None)] if isinstance(lst, list) and any(any(x is c for x in ast.walk(s_)) for s_ in lst) and any(isinstance(s_, ast.Assign) for s_ in lst)), rg.node.body)
        res_ = make_resolver(blk)
        a = [norm(res_(x)) for x in c.args]
        seq_ok = False
        fields = None
        import re as _re

        m0 = _re.fullmatch(r"(\w+)\[1\]", a[0]) if a else None
        if m0 and len(a) == 3:
            fields = m0.group(1)
            # sequence argument: fields[2], or '' (low memory), possibly through a conditional temporary
            seq_txts = set()
            x = c.args[1]
            if isinstance(x, ast.Name) and x.id in ld:
                for d in ld[x.id]:
                    if isinstance(d, ast.IfExp):
                        seq_txts |= {norm(d.body), norm(d.orelse)}
                    elif d is not None:
                        seq_txts.add(norm(d))
            elif isinstance(x, ast.IfExp):
                seq_txts |= {norm(x.body), norm(x.orelse)}
            else:
                seq_txts.add(norm(x))
            seq_ok = seq_txts <= {f"{fields}[2]", "''"} and a[2] == f"{fields}[3:]"
        if m0 is None:
            raise AnalysisError("R07.10", rg.where(c), "add_node arguments are not columns of the split S line")
        ctx.check(seq_ok, "R07.10", rg.where(c), "an S line yields node id = column 2, sequence = column 3 (or '' in low-memory mode) and tags = all columns from the 4th on", key_of(rg, f"S-parse:{a}"), args=a)
    seqs = {norm(c.args[1]) for c in calls}
    # overlap round trip
    ov_read = [st for st in walk_own(rg.node) if isinstance(st, ast.Assign) and isinstance(st.targets[0], ast.Subscript) and const_value(st.targets[0].slice) == 4 and norm(st.value).startswith("int(")]
    ok_r = len(ov_read) == 1 and norm(ov_read[0].value) == f"int({norm(ov_read[0].targets[0])}[:-1])"
    if len(ov_read) == 1 and not ok_r and isinstance(ov_read[0].value, ast.Call) and ov_read[0].value.args and isinstance(ov_read[0].value.args[0], ast.Name):
        # the text before the letter held in a local first: overlap = e[4][:-1]; e[4] = int(overlap)
        tmp_ = ov_read[0].value.args[0].id
        ds_ = [st for st in walk_own(rg.node) if isinstance(st, ast.Assign) and len(st.targets) == 1 and norm(st.targets[0]) == tmp_]
        if len(ds_) == 1 and norm(ds_[0].value) == f"{norm(ov_read[0].targets[0])}[:-1]":
            ok_r = True
        elif len(ds_) != 1:
            raise AnalysisError("R07.10", rg.where(ov_read[0]), f"the overlap is converted from `{tmp_}`, which is bound {len(ds_)} times")
    if not ov_read:
        # the overlap kept in a variable of its own: overlap = int(<columns>[4][:-1]) (0-based column 5 of the L line)
        import re as _re

        ov_read = [st for st in walk_own(rg.node) if isinstance(st, ast.Assign) and _re.fullmatch(r"int\((\w+)\[(4|5)\]\[:-1\]\)", norm(st.value))]
        ok_r = len(ov_read) == 1
    wf = g.write_gfa
    # the sixth item of every L line built in a per-neighbour loop: str(<neighbour>[2]) + "M", directly or through a local
    ov_w = []
    ok_w = True
    for lp in [l for l in walk_own(wf.node) if isinstance(l, ast.For) and norm(l.iter).endswith((".start", ".end"))]:
        nb = norm(lp.target)
        want = f"str({nb}[2]) + 'M'"
        for c in ast.walk(lp):
            if isinstance(c, ast.Call) and isinstance(c.func, ast.Attribute) and c.func.attr == "join" and c.args:
                a = c.args[0]
                items = a.left.elts if isinstance(a, ast.BinOp) and isinstance(a.left, ast.List) else (a.elts if isinstance(a, ast.List) else None)
                if items and const_value(items[0]) == "L" and len(items) >= 6:
                    it5 = items[5]
                    txt = norm(it5)
                    if isinstance(it5, ast.Name):
                        ds = [st for st in walk_stmts(lp.body) if isinstance(st, ast.Assign) and norm(st.targets[0]) == it5.id]
                        txt = norm(ds[0].value) if len(ds) == 1 else txt
                    ov_w.append(txt)
                    ok_w = ok_w and txt == want
    if len(ov_w) < 2 or not ov_read:
        raise AnalysisError("R07.10", wf.where(), f"cannot find where link overlaps are read ({len(ov_read)}) and written ({len(ov_w)} L-line builders in per-neighbour loops)")
    ctx.check(ok_r and ok_w, "R07.10", wf.where(), "link overlaps round-trip: read as the integer before the trailing letter, written as str(overlap) + 'M' of the stored adjacency entry", key_of(wf, f"overlap:{[norm(s.value) for s in ov_read]}:{sorted(set(ov_w))}"))
    # record letters: the reader dispatches on 'S' and 'L' only
    tests = sorted({const_value(c.args[0]) for c in walk_own(rg.node) if isinstance(c, ast.Call) and isinstance(c.func, ast.Attribute) and c.func.attr == "startswith" and c.args})
    ctx.check(tests == ["L", "S"], "R07.10", rg.where(), "the reader takes S lines as segments and L lines as links", key_of(rg, f"letters:{tests}"))


def r07_11(ctx, g):
    """A link read without optional fields must still be written.  The value the reader hands to add_edge for such a link
    (T0: the one-element placeholder `[0]`, or the empty list), whether add_edge stores it, and what the writer then finds
    are followed through the three functions; on every path of the writer's per-neighbour loop that is consistent with
    that value (and a neighbour inside the node set) an L line must be emitted — with the placeholder cleared only after
    the decision to write."""
    from ..paths import canon_test

    wf, rg, ae = g.write_gfa, g.read_graph, g.add_edge
    # T0: what the reader passes for a link without tags
    call = [c for c in walk_own(rg.node) if isinstance(c, ast.Call) and isinstance(c.func, ast.Attribute) and c.func.attr == "add_edge"]
    if len(call) != 1 or not call[0].args:
        raise AnalysisError("R07.11", rg.where(), "cannot find the reader's add_edge call")
    targ = call[0].args[-1]
    t0 = "[]"
    if isinstance(targ, ast.BoolOp) and isinstance(targ.op, ast.Or):
        if norm(targ.values[-1]) == "[0]":
            t0 = "[0]"
        elif norm(targ.values[-1]) not in ("[]", "list()"):
            raise AnalysisError("R07.11", rg.where(call[0]), f"the reader stands `{norm(targ.values[-1])[:40]}` in for the tags of a link without optional fields: what the writer makes of that placeholder is not read by this rule")
    elif isinstance(targ, ast.IfExp):
        raise AnalysisError("R07.11", rg.where(call[0]), f"the reader chooses the tags argument with `{norm(targ)[:50]}`: the placeholder of a link without optional fields is not read by this rule")
    elif isinstance(targ, ast.Name):
        for st in walk_own(rg.node):
            if isinstance(st, ast.Assign) and norm(st.targets[0]) == targ.id and norm(st.value) == "[0]":
                gds = [canon_test(t, pol) for t, pol in guards_of(rg.node, st)]
                if (targ.id, False) in gds or (f"len({targ.id}) == 0", True) in gds:
                    t0 = "[0]"
            elif isinstance(st, ast.Assign) and norm(st.targets[0]) == targ.id and isinstance(st.value, ast.BoolOp) and isinstance(st.value.op, ast.Or) and len(st.value.values) == 2 and norm(st.value.values[0]) == targ.id and norm(st.value.values[1]) == "[0]":
                t0 = "[0]"  # e_tags = e_tags or [0]
            elif isinstance(st, ast.Assign) and norm(st.targets[0]) == targ.id and isinstance(st.value, (ast.Name, ast.Constant, ast.Tuple)) and norm(st.value) not in ("[]",):
                raise AnalysisError("R07.11", rg.where(st), f"the reader stands `{norm(st.value)[:40]}` in for the tags of a link: what the writer makes of that placeholder is not read by this rule")
    # does add_edge store T0?
    stores = [st for st in walk_own(ae.node) if isinstance(st, ast.Assign) and isinstance(st.targets[0], ast.Subscript) and norm(st.targets[0].value).endswith("edge_tags")]
    if len(stores) != 1:
        raise AnalysisError("R07.11", ae.where(), "cannot find where add_edge stores the link's tags")
    tparam = norm(stores[0].value)
    stored = True
    for t, pol in guards_of(ae.node, stores[0]):
        ct, cp = canon_test(t, pol)
        if ct == tparam:
            v = t0 == "[0]"
        elif ct == f"{tparam} is None":
            v = False
        elif ct == f"len({tparam}) == 0":
            v = t0 == "[]"
        elif ct in (f"len({tparam}) > 0", f"len({tparam}) != 0"):
            v = t0 == "[0]"
        else:
            continue
        if v != cp:
            stored = False
    loops = [l for l in walk_own(wf.node) if isinstance(l, ast.For) and norm(l.iter).endswith((".start", ".end"))]
    ctx.require_count("R07.11", len(loops), 2, wf.where(), "per-neighbour loops of the writer (start side, end side)")

    def conjuncts(t, pol):
        if isinstance(t, ast.BoolOp) and isinstance(t.op, ast.And) and pol:
            return [x for v in t.values for x in conjuncts(v, True)]
        if isinstance(t, ast.BoolOp) and isinstance(t.op, ast.Or) and not pol:
            return [x for v in t.values for x in conjuncts(v, False)]
        return [canon_test(t, pol)]

    n_cons = 0
    for lp in loops:
        tv = None
        look = None
        for st in walk_stmts(lp.body):
            if isinstance(st, ast.Assign) and isinstance(st.value, ast.Subscript) and norm(st.value.value).endswith("edge_tags") and isinstance(st.targets[0], ast.Name):
                tv, look = st.targets[0].id, st
        if tv is None:
            raise AnalysisError("R07.11", wf.where(lp), "cannot find the tag lookup of the neighbour loop")
        nb = norm(lp.target)
        paths = enum_paths(lp.body, rule="R07.11", where=wf.where(lp))
        bad = None
        for p in paths:
            # the value of the tag variable along the path: from the lookup (stored world) or from the KeyError handler
            val = None
            consistent = True
            emitted = False
            for e in p.events:
                if e.kind == "exc" and e.node is look:
                    if stored:
                        consistent = False
                    val = None
                elif e.kind == "stmt" and e.node is look and not any(x.kind == "exc" and x.node is look for x in p.events):
                    if not stored:
                        consistent = False
                    val = t0
                elif e.kind == "stmt" and isinstance(e.node, ast.Assign) and norm(e.node.targets[0]) == tv and e.node is not look:
                    val = norm(e.node.value) if norm(e.node.value) in ("[]", "[0]") else "?"
                elif e.kind == "test":
                    for ct, cp in conjuncts(e.node, e.pol):
                        if ct == f"{nb}[0] in set_of_nodes" or (" in " in ct and ct.startswith(f"{nb}[0] in ")):
                            if not cp:
                                consistent = False
                        elif ct == tv and val in ("[]", "[0]"):
                            if (val == "[0]") != cp:
                                consistent = False
                        elif ct == f"{tv}[0] == 0" and val in ("[]", "[0]"):
                            if val == "[]" or not cp:
                                consistent = False  # indexing an empty list does not happen on a feasible path
                elif e.kind == "stmt" and isinstance(e.node, ast.Expr) and isinstance(e.node.value, ast.Call) and isinstance(e.node.value.func, ast.Attribute) and e.node.value.func.attr in ("append", "write"):
                    emitted = True
            if not consistent:
                continue
            n_cons += 1
            if not emitted and p.term in ("fall", "continue"):
                bad = p
        ctx.check(bad is None, "R07.11", wf.where(lp), f"a link read without optional fields (handed to add_edge as {t0}, {'stored' if stored else 'not stored'} by it) is still written: every consistent path of the writer's neighbour loop emits its L line", key_of(wf, f"tagless-link-written:{norm(lp.iter)[-6:]}:{t0}:{stored}"), **({"path": bad.show()} if bad else {}))
    ctx.require_count("R07.11", n_cons, 2, wf.where(), "writer paths consistent with a link that has no optional fields")


def r07_13(ctx, g):
    """Line discipline of the writer: what is written to the GFA handle ends its line.  A block written as
    `handle.write("\n".join(lines))` has no line end after its last line: the next thing written to the file — or the first
    line of the next per-chromosome file when the files are concatenated — continues that line, and two records become one."""
    w = g.raw["write_gfa"] if hasattr(g, "raw") else g.write_gfa
    n = 0
    for c in walk_own(w.node):
        if isinstance(c, ast.Call) and isinstance(c.func, ast.Attribute) and c.func.attr in ("write", "writelines") and len(c.args) == 1:
            a = c.args[0]
            n += 1
            if c.func.attr == "write" and isinstance(a, ast.Call) and isinstance(a.func, ast.Attribute) and a.func.attr == "join" and const_value(a.func.value, None) == "\n":
                ctx.violated("R07.13", w.where(c), f"`{norm(c)[:60]}` writes a block of lines without a line end after the last one: the file does not end with a newline, and when the per-chromosome files are put together the last L line of one chromosome and the first of the next become one line (one link lost, one corrupted)", key_of(w, f"block-without-newline:{norm(a)[:40]}"))
    ctx.require_count("R07.13", n, 1, w.where(), "writes to the GFA handle")
    if not any(i.rule == "R07.13" and i.verdict == "violated" for i in ctx.instances):
        ctx.holds("R07.13", w.where(), "no block of lines is written without its final line end")
