"""Shared model of gaftools/gfa.py for C07, C14, C15: link-orientation tables, adjacency mutators."""

from __future__ import annotations

import ast

from ..core import AnalysisError, const_value, norm, walk_own, walk_stmts
from ..paths import enum_paths


class G:
    pass


def build(ctx, rule):
    repo = ctx.repo
    mod = repo.module("gaftools.gfa", rule)
    g = G()
    g.mod = mod
    # E_DIR: module-level dict literal (o1, o2) -> (side1, side2)
    g.edir_name = None
    for name, val in mod.consts.items():
        if isinstance(val, ast.Dict) and len(val.keys) == 4 and all(isinstance(k, ast.Tuple) and len(k.elts) == 2 for k in val.keys):
            tbl = {}
            ok = True
            for k, v in zip(val.keys, val.values):
                kk = tuple(const_value(e) for e in k.elts)
                vv = tuple(const_value(e) for e in v.elts) if isinstance(v, ast.Tuple) else None
                if vv is None or not all(x in ("+", "-") for x in kk):
                    ok = False
                tbl[kk] = vv
            if ok:
                g.edir_name, g.edir, g.edir_node = name, tbl, val
    if g.edir_name is None:
        raise AnalysisError(rule, mod.relpath, "cannot find the link-orientation table (dict literal (+/-, +/-) -> (side, side))")
    g.add_edge = repo.func("gaftools.gfa", "GFA.add_edge", rule)
    g.remove_edge = repo.func("gaftools.gfa", "GFA.remove_edge", rule)
    g.remove_node = repo.func("gaftools.gfa", "GFA.remove_node", rule)
    g.add_node = repo.func("gaftools.gfa", "GFA.add_node", rule)
    g.read_graph = repo.func("gaftools.gfa", "GFA.read_graph", rule)
    g.write_gfa = repo.func("gaftools.gfa", "GFA.write_gfa", rule)
    for f in (g.add_edge, g.remove_edge, g.remove_node, g.add_node, g.read_graph, g.write_gfa):
        ctx.analysed_func(f)
    return g


def flip(o):
    return {"+": "-", "-": "+", ">": "<", "<": ">"}[o]


def endpoint_mutations(ctx, f, kind):
    """For add_edge / remove_edge: per path, the list of adjacency mutations
    (endpoint expr, method name, args texts).  kind: 'add' | 'remove'."""
    paths = enum_paths(f.node.body, rule="R15.2", where=f.where())
    out = []
    for p in paths:
        muts = []
        for e in p.events:
            if e.kind == "stmt" and isinstance(e.node, ast.Expr) and isinstance(e.node.value, ast.Call) and isinstance(e.node.value.func, ast.Attribute):
                c = e.node.value
                m = c.func.attr
                if m.startswith(("add_from_", "remove_from_")):
                    muts.append((norm(c.func.value), m, [norm(a) for a in c.args]))
        out.append((p, muts))
    return out
