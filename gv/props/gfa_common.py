"""Shared model of gaftools/gfa.py for C07, C14, C15: link-orientation tables, adjacency mutators."""

from __future__ import annotations

import ast

from ..core import AnalysisError, const_value, norm, walk_own, walk_stmts
from ..paths import enum_paths


class G:
    pass


def build(ctx, rule):
    repo = ctx.repo
    mod = repo.module("gaftools.gfa", rule)
    g = G()
    g.mod = mod
    # E_DIR: module-level dict literal (o1, o2) -> (side1, side2)
    g.edir_name = None
    for name, val in mod.consts.items():
        if isinstance(val, ast.Dict) and len(val.keys) == 4 and all(isinstance(k, ast.Tuple) and len(k.elts) == 2 for k in val.keys):
            tbl = {}
            ok = True
            for k, v in zip(val.keys, val.values):
                kk = tuple(const_value(e) for e in k.elts)
                vv = tuple(const_value(e) for e in v.elts) if isinstance(v, ast.Tuple) else None
                if vv is None or not all(x in ("+", "-") for x in kk):
                    ok = False
                tbl[kk] = vv
            if ok:
                g.edir_name, g.edir, g.edir_node = name, tbl, val
    if g.edir_name is None:
        raise AnalysisError(rule, mod.relpath, "cannot find the link-orientation table (dict literal (+/-, +/-) -> (side, side))")
    g.add_edge = repo.func("gaftools.gfa", "GFA.add_edge", rule)
    g.remove_edge = repo.func("gaftools.gfa", "GFA.remove_edge", rule)
    g.remove_node = repo.func("gaftools.gfa", "GFA.remove_node", rule)
    g.add_node = repo.func("gaftools.gfa", "GFA.add_node", rule)
    g.read_graph = repo.func("gaftools.gfa", "GFA.read_graph", rule)
    g.write_gfa = repo.func("gaftools.gfa", "GFA.write_gfa", rule)
    for f in (g.add_edge, g.remove_edge, g.remove_node, g.add_node, g.read_graph, g.write_gfa):
        ctx.analysed_func(f)
    # the rules read the mutators in normal form: private helpers of the class inlined, constant loops unrolled
    from ..core import tail_inlined, unroll_const_loops

    from ..core import detuple

    g.raw = {k: getattr(g, k) for k in ("add_edge", "remove_edge", "remove_node", "add_node", "read_graph", "write_gfa")}
    for k in ("add_edge", "remove_edge", "remove_node", "add_node", "read_graph", "write_gfa"):
        setattr(g, k, detuple(repo, getattr(g, k)))  # module-level namedtuples (an Edge record ...) read as plain tuples
    g.read_graph = tail_inlined(repo, g.read_graph, keep=lambda c: c.name in ("add_edge", "add_node"))
    from ..core import desugar_ifexp, fold_consts, hoist_calls

    # the writer: private emitter helpers inlined (also out of `f(a) + f(b)`), specialised on constant arguments
    from ..core import inline_access_aliases

    from ..core import sink_into_branches

    g.write_gfa = tail_inlined(repo, hoist_calls(repo, g.write_gfa), keep=lambda c: not c.name.startswith("_") or c.name.startswith("__"))
    # a loop over a literal tuple of (side, sign, adjacency set) rows is read as its two iterations; a sign chosen by a
    # branch and used after it is read inside the branch
    g.write_gfa = inline_access_aliases(desugar_ifexp(fold_consts(sink_into_branches(unroll_const_loops(g.write_gfa)))))
    from ..core import inline_callable_aliases

    for k in ("add_edge", "remove_edge"):
        # `attach = n.add_from_start if side == 0 else n.add_from_end; attach(...)` is read as the two calls
        f_ = getattr(g, k)
        if any(isinstance(x, ast.IfExp) for x in ast.walk(f_.node)):
            setattr(g, k, inline_callable_aliases(sink_into_branches(desugar_ifexp(f_))))
    for k in ("remove_edge", "remove_node", "add_node", "add_edge"):
        setattr(g, k, unroll_const_loops(tail_inlined(repo, hoist_calls(repo, getattr(g, k)), keep=lambda c: c.name in ("add_edge", "remove_edge", "add_node", "remove_node") or c.name.startswith(("add_from_", "remove_from_")))))
    from ..core import inline_object_aliases

    g.add_node = inline_object_aliases(g.add_node)  # `node_tags = node.tags; node_tags[k] = v` is a store into node.tags
    return g


def flip(o):
    return {"+": "-", "-": "+", ">": "<", "<": ">"}[o]


import re as _re


def _subst_text(text, mapping):
    for k, v in mapping.items():
        text = _re.sub(rf"(?<![\w.]){_re.escape(k)}(?![\w])", v, text)
    return text


class VPath:
    """A path through an edge mutator with the one-sided helper calls inlined: tests and mutations as texts."""

    def __init__(self, tests, muts, term, shown):
        self.tests, self.muts, self.term, self.shown = tests, muts, term, shown

    def show(self, limit=14):
        return self.shown


def endpoint_mutations(ctx, f, kind, depth=0, mapping=None):
    """Per path of add_edge / remove_edge: the adjacency mutations (endpoint node text, method, args texts) and the
    tests evaluated, with calls to private helpers of the same class inlined (parameters replaced by the argument
    texts) and receiver temporaries (`first = self.nodes[n1]`) resolved."""
    from ..core import local_defs, resolve_expr
    from ..paths import canon_test

    repo = ctx.repo
    mapping = mapping or {}
    ldefs = local_defs(f.node)
    paths = enum_paths(f.node.body, rule="R15.2", where=f.where())
    out = []
    for p in paths:
        variants = [([], [])]
        for e in p.events:
            if e.kind == "test":
                t, pol = canon_test(e.node, e.pol)
                t = _subst_text(t, mapping)
                variants = [(ts + [(t, pol)], ms) for ts, ms in variants]
            elif e.kind == "stmt" and isinstance(e.node, ast.Expr) and isinstance(e.node.value, ast.Call) and isinstance(e.node.value.func, ast.Attribute):
                c = e.node.value
                m = c.func.attr
                if m.startswith(("add_from_", "remove_from_")):
                    rv = c.func.value
                    if isinstance(rv, ast.Name) and rv.id in ldefs and len(ldefs[rv.id]) == 1 and ldefs[rv.id][0] is not None and isinstance(ldefs[rv.id][0], ast.Subscript):
                        recv = _subst_text(norm(ldefs[rv.id][0]), mapping)
                    else:
                        recv = _subst_text(norm(rv), mapping)
                    args = [_subst_text(norm(a), mapping) for a in c.args]  # argument names are compared with the tests, keep them as written
                    variants = [(ts, ms + [(recv, m, args)]) for ts, ms in variants]
                else:
                    callee = repo.resolve_call(f, c)
                    if callee is not None and callee.cls == f.cls and depth < 2 and any(isinstance(x, ast.Call) and isinstance(x.func, ast.Attribute) and x.func.attr.startswith(("add_from_", "remove_from_")) for x in walk_own(callee.node)):
                        params = callee.params[1:]
                        sub = {pn: _subst_text(norm(a), mapping) for pn, a in zip(params, c.args)}
                        for k in c.keywords:
                            sub[k.arg] = _subst_text(norm(k.value), mapping)
                        inner = endpoint_mutations(ctx, callee, kind, depth + 1, sub)
                        nv = []
                        for ts, ms in variants:
                            for ip in inner:
                                nv.append((ts + ip.tests, ms + ip.muts))
                        variants = nv
        for ts, ms in variants:
            out.append(VPath(ts, ms, p.term, p.show()))
    return out
