"""Shared model of gaftools/conversion.py, utils.search_intervals and index.convert_coord (C01, C02, C03)."""

from __future__ import annotations

import ast

from .common import key_of
from ..core import AnalysisError, const_value, norm, walk_own, walk_stmts
from ..paths import enum_paths
from .. import ordtab
from . import emit


class Conv:
    pass


def build(ctx, rule):
    repo = ctx.repo
    schema, extras, ems = emit.find_emitters(ctx, rule)
    m = Conv()
    m.schema, m.extras = schema, extras
    m.to_unstable = m.to_stable = None
    for f, rec, n in ems:
        if f.module.name != "gaftools.conversion":
            continue
        if any(isinstance(x, (ast.Yield, ast.YieldFrom)) for x in ast.walk(f.node)):
            continue  # a streaming generator that shows the converter's template only because the converter is inlined in it
        calls = [repo.resolve_call(f, c) for c in walk_own(f.node) if isinstance(c, ast.Call)]
        names = {c.qualname for c in calls if c is not None}
        if any("search" in q for q in names):
            m.to_unstable = (f, rec, n)
        else:
            m.to_stable = (f, rec, n)
    if m.to_unstable is None or m.to_stable is None:
        raise AnalysisError(rule, "gaftools/conversion.py", "cannot find the two record converters (emitters in gaftools.conversion)")
    ctx.analysed_func(m.to_unstable[0])
    ctx.analysed_func(m.to_stable[0])
    # the interval search function: callee of to_unstable whose body calls itself
    m.search = None
    f = m.to_unstable[0]
    for c in walk_own(f.node):
        if isinstance(c, ast.Call) and len(c.args) == 5:
            callee = repo.resolve_call(f, c)
            if callee is None or len(callee.params) != 5:
                continue
            rec_ = any(isinstance(x, ast.Call) and repo.resolve_call(callee, x) is callee for x in walk_own(callee.node))
            loop_ = any(isinstance(x, ast.While) for x in walk_own(callee.node))
            if rec_ or loop_:
                m.search = callee
                m.search_call_unstable = c
    if m.search is None:
        raise AnalysisError(rule, f.where(), "cannot find the recursive interval search called by the stable->unstable converter")
    ctx.analysed_func(m.search)
    # the merge function: callee of to_stable that returns False / a list
    m.merge = None
    g = m.to_stable[0]
    for c in walk_own(g.node):
        if isinstance(c, ast.Call):
            callee = repo.resolve_call(g, c)
            if callee is not None and any(isinstance(r, ast.Return) and const_value(r.value, "?") is False for r in walk_own(callee.node)):
                m.merge = callee
                m.merge_call = c
    if m.merge is None:
        # positive evidence that intervals are merged without the adjacency test: an interval put together from the start
        # of one node's interval and the end of another's (StableNode(contig, first.start, last.end)) in the converter itself
        for c in walk_own(g.node):
            if isinstance(c, (ast.Call, ast.Tuple, ast.List)):
                args = c.args if isinstance(c, ast.Call) else c.elts
                starts = {norm(a.value) for a in args if isinstance(a, ast.Attribute) and a.attr == "start" and isinstance(a.value, (ast.Name, ast.Subscript))}
                ends = {norm(a.value) for a in args if isinstance(a, ast.Attribute) and a.attr == "end" and isinstance(a.value, (ast.Name, ast.Subscript))}
                if starts and ends and not (starts & ends):
                    from .c09 import guards_of

                    st_ = None
                    for s2 in walk_stmts(g.node.body):
                        if not isinstance(s2, (ast.If, ast.For, ast.While, ast.With, ast.Try)) and any(x is c for x in ast.walk(s2)):
                            st_ = s2
                    gtxt = " ".join(norm(t_) for t_, _p in (guards_of(g.node, st_) if st_ is not None else []))
                    if ".start" in gtxt and ".end" in gtxt:
                        continue  # an adjacency test of its own guards the join: not decided here
                    ctx.violated("R01.5" if ctx.prop == "C01" else "R01.5", g.where(c), f"`{norm(c)[:80]}` joins the start of one node's interval with the end of another's inside the converter, without the merge function's test that the two intervals touch: consecutive nodes of one contig and orientation that are not adjacent on the contig (a walk over a deletion edge `>s1>s3`, a loop back) become one interval that also covers the bases in between", key_of(g, f"merge-without-adjacency:{norm(c)[:50]}"))
        raise AnalysisError(rule, g.where(), "cannot find the interval merge function called by the unstable->stable converter")
    ctx.analysed_func(m.merge)
    return m


def strip_int(e):
    while isinstance(e, ast.Call) and isinstance(e.func, ast.Name) and e.func.id == "int" and len(e.args) == 1:
        e = e.args[0]
    return e


class OverlapSite:
    """A loop `for x in SEGS[lo : hi + 1]` that filters segments by overlap with a query interval."""

    def __init__(self, func, loop, search_call):
        self.func = func
        self.loop = loop
        self.search_call = search_call
        self.iv = norm(loop.target)
        a = search_call.args
        self.qs = norm(strip_int(a[1]))
        self.qe = norm(strip_int(a[2]))
        self.paths = enum_paths(loop.body, rule="R01.1", where=func.where(loop))
        # locals defined once inside the loop body
        self.local = {}
        for st in walk_stmts(loop.body):
            if isinstance(st, ast.Assign) and len(st.targets) == 1 and isinstance(st.targets[0], ast.Name):
                self.local.setdefault(st.targets[0].id, []).append(st.value)
        # hoisted locals in the enclosing function (qs = int(query_start))
        self.hoisted = {}
        for st in walk_own(func.node):
            if isinstance(st, ast.Assign) and len(st.targets) == 1 and isinstance(st.targets[0], ast.Name) and not any(x is st for x in ast.walk(loop)):
                self.hoisted.setdefault(st.targets[0].id, []).append(st.value)
        # the append of the segment id
        self.append = None
        for st in walk_stmts(loop.body):
            if isinstance(st, ast.Expr) and isinstance(st.value, ast.Call) and isinstance(st.value.func, ast.Attribute) and st.value.func.attr == "append" and st.value.args and norm(st.value.args[0]) in (f"{self.iv}.id", self.iv):
                self.append = st
        if self.append is None:
            raise AnalysisError("R01.1", func.where(loop), "overlap loop does not append the segment id")

    def atom_of(self, e, depth=0):
        e0 = strip_int(e)
        t = norm(e0)
        iv = self.iv
        so = f"{iv}.tags['SO'][1]"
        ln = f"{iv}.tags['LN'][1]"
        if t == so:
            return "s"
        if isinstance(e0, ast.BinOp) and isinstance(e0.op, ast.Add):
            def _res(x, d=0):
                x = strip_int(x)
                if isinstance(x, ast.Name) and d < 3:
                    ds = self.local.get(x.id)
                    if ds and len(ds) == 1:
                        return _res(ds[0], d + 1)
                return x

            l, r = norm(_res(e0.left)), norm(_res(e0.right))
            if {l, r} == {so, ln}:
                return "e"
            la, ra = self.atom_of(e0.left, depth + 1), self.atom_of(e0.right, depth + 1)
            if (la == "s" and r == ln) or (ra == "s" and l == ln):
                return "e"
        if t == self.qs:
            return "qs"
        if t == self.qe:
            return "qe"
        if isinstance(e0, ast.Name) and depth < 4:
            defs = self.local.get(e0.id)
            if defs and len(defs) == 1:
                return self.atom_of(defs[0], depth + 1)
            defs = self.hoisted.get(e0.id)
            if defs and len(defs) == 1 and e0.id not in (self.qs, self.qe):
                return self.atom_of(defs[0], depth + 1)
        return None


def find_overlap_site(ctx, func, search, rule):
    repo = ctx.repo
    call = None
    for c in walk_own(func.node):
        if isinstance(c, ast.Call) and repo.resolve_call(func, c) is search:
            call = c
    if call is None:
        raise AnalysisError(rule, func.where(), f"no call of {search.qualname}")
    # the whole segment list of the contig is searched: lower bound 0, upper bound len(list) (a start position remembered from
    # an earlier step of the path is only right while the steps come in ascending order — a reverse walk over a bubble,
    # a walk that returns to an earlier position, is then searched to the right of where it lies)
    if len(call.args) == 5:
        lo_a, hi_a = call.args[3], call.args[4]
        from .common import key_of as _kof

        if not (const_value(lo_a, None) == 0):
            ctx.violated(rule, func.where(call), f"the interval search is started at `{norm(lo_a)[:50]}`, not at the first segment of the contig: an interval that lies left of that position is not found, and the segments under it are missing from the result", _kof(func, f"search-lower-bound:{norm(lo_a)[:30]}"))
        if not (isinstance(hi_a, ast.Call) and norm(hi_a.func) == "len" and hi_a.args and norm(hi_a.args[0]) == norm(call.args[0])) and not isinstance(hi_a, ast.Name):
            ctx.violated(rule, func.where(call), f"the interval search ends at `{norm(hi_a)[:50]}`, not at the end of the contig's segment list", _kof(func, f"search-upper-bound:{norm(hi_a)[:30]}"))
    # window variables: `lo, hi = search(...)`
    asg = None
    for st in walk_own(func.node):
        if isinstance(st, ast.Assign) and st.value is call and isinstance(st.targets[0], ast.Tuple) and len(st.targets[0].elts) == 2:
            asg = st
    if asg is None:
        raise AnalysisError(rule, func.where(call), "the search window is not unpacked into (start, end)")
    lo, hi = [norm(e) for e in asg.targets[0].elts]
    loops = [n for n in walk_own(func.node) if isinstance(n, ast.For) and isinstance(n.iter, ast.Subscript) and isinstance(n.iter.slice, ast.Slice) and norm(n.iter.value) == norm(call.args[0])]
    if len(loops) != 1:
        raise AnalysisError(rule, func.where(call), f"expected one loop over the searched segment list window, found {len(loops)}")
    # segments kept by the overlap loop are not taken out again afterwards (a "de-duplication" of a boundary segment also
    # removes a segment the walk really passes twice: a self loop `>s2>s2`)
    kept = {norm(c_.func.value) for c_ in ast.walk(loops[0]) if isinstance(c_, ast.Call) and isinstance(c_.func, ast.Attribute) and c_.func.attr == "append" and isinstance(c_.func.value, ast.Name)}
    for x_ in walk_own(func.node):
        gone = None
        if isinstance(x_, ast.Delete) and any(isinstance(t_, ast.Subscript) and norm(t_.value) in kept for t_ in x_.targets):
            gone = norm(x_)
        elif isinstance(x_, ast.Call) and isinstance(x_.func, ast.Attribute) and x_.func.attr in ("pop", "remove", "clear") and norm(x_.func.value) in kept:
            gone = norm(x_)
        if gone and not any(y_ is x_ for y_ in ast.walk(loops[0])):
            from .common import key_of as _key_of

            ctx.violated(rule, func.where(x_), f"`{gone[:50]}` removes a segment that the overlap filter kept for this interval: when consecutive intervals of the path really cover the same segment twice (a self loop `>s2>s2`, a walk that returns to a segment) the second visit disappears from the unstable path and the path no longer has the length its columns say", _key_of(func, f"kept-segment-removed:{gone[:40]}"))
    site = OverlapSite(func, loops[0], call)
    site.lo, site.hi = lo, hi
    site.slice = loops[0].iter.slice
    return site


def interval_envs():
    """All weak orderings of (s, e, qs, qe) with s < e and qs < qe."""
    for env, scale in ordtab.weak_orderings(["s", "e", "qs", "qe"], []):
        if env["s"] < env["e"] and env["qs"] < env["qe"]:
            yield env, scale


def show_order(env, names=("s", "e", "qs", "qe")):
    items = sorted(names, key=lambda n: (env[n], n))
    out = items[0]
    for a, b in zip(items, items[1:]):
        out += (" = " if env[a] == env[b] else " < ") + b
    return out
