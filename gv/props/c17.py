"""C17 — results do not depend on input compression.

R17.1  every GAF opener sniffs the content: a GAF path reaches open() only in the else-branch of
       is_file_gzipped(path), whose then-branch opens BGZFile(path, 'rb'); the sniff itself reads the
       gzip magic bytes of the file (not its name)
R17.2  bytes/str duality: in every function that reads lines from a handle that may be a BGZFile, a line
       reaches str-only operations only after a decode guarded by one of the repository's idioms
R17.3  one graph opener: graph paths are opened only in GFA.read_graph, which chooses gzip.open / open by
       suffix and rejects everything else; every subcommand that takes a graph constructs GFA(path, ...)
R17.4  offsets are produced and consumed on the same handle class (shared with R03.6, R09.1)
"""

from __future__ import annotations

import ast

from ..core import same_func, AnalysisError, const_value, norm, walk_own, walk_stmts, names_in
from ..paths import enum_paths, canon_test
from . import c03
from .c09 import guards_of
from .common import key_of

META = {
    "explanation": "Static decision of the compression-independence plumbing: a who-may-open scan over the whole package finds every place a GAF path "
    "reaches an open call and requires the sniff -> (BGZFile 'rb' | text open) idiom there, with the sniff function reading the two gzip "
    "magic bytes from the file; every function that reads lines from such a handle must decode bytes (under gz_flag, isinstance(line, bytes) or "
    "try/except TypeError) before any str-only operation on every path; graph files are opened in exactly one place that dispatches on the "
    "suffix for both documented forms; the handles whose offsets are stored (index, sort) are opened like the handle that later seeks them.  "
    "Not decided: equality of records across BGZF block boundaries (pysam) and gzip's own transparency.",
    "technique": "static analysis: who-may-open scan, guarded-idiom recognition, path enumeration for decode-before-use, sibling opener agreement",
}

TEXT_ONLY_METHODS = {"split", "rstrip", "strip", "startswith", "format", "join", "encode", "replace"}


def check(ctx):
    repo = ctx.repo
    ctx.run(r17_1)
    ctx.run(r17_2)
    ctx.run(r17_3)
    ctx.run(r17_5)
    ctx.run(r17_7)
    ctx.run(r17_8)
    # R17.4
    run = c03.index_run(ctx, "R17.4")
    info = c03.r03_1(ctx, run)
    ctx.run(c03.r03_6, run, info)
    from . import sort_common as sc
    from . import c09

    m = sc.build(ctx, "R17.4")
    ctx.run(c09.r09_1, m)
    ctx.not_decided += [
        "equality of records across BGZF block boundaries and pysam's readline contract",
        "that gzip.open(..., 'rt') yields the same lines as open() on the decompressed file (standard library)",
    ]
    # mechanisms this property rests on (see shared.py): a change there is reported here as well
    from . import shared as _sh

    ctx.run(_sh.r17_6)  # C17 owns the reader contract: undecidable here = exit 2
    ctx.run_shared(_sh.gaf_reader)
    ctx.run_shared(_sh.graph_loader)


def r17_1(ctx):
    repo = ctx.repo
    from ..core import find_sniffer

    sniff = find_sniffer(repo, "R17.1")
    ctx.analysed_func(sniff)
    src = norm(sniff.node)
    p0 = sniff.params[0]
    opens = [c for c in walk_own(sniff.node) if isinstance(c, ast.Call) and norm(c.func) == "open"]
    reads_magic = False
    from ..core import const_fold, resolve_expr, with_str_consts, inline_callable_aliases, sink_into_branches, desugar_ifexp, inline_bool_temps, reaching_def

    sn_ = with_str_consts(sniff)
    if not opens and any(isinstance(c, ast.Call) and isinstance(c.func, ast.Attribute) and c.func.attr == "read" and norm(c.func.value) == p0 for c in walk_own(sniff.node)):
        raise AnalysisError("R17.1", sniff.where(), f"the sniffer reads from a handle it is given (`{p0}.read(...)`): which file each caller opens for it, and in which mode, is not traced by this rule")
    for r in walk_own(sn_.node):
        if isinstance(r, ast.Return) and r.value is not None:
            rv = ast.parse(resolve_expr(sn_.node, r.value), mode="eval").body
            if isinstance(rv, ast.Compare) and len(rv.ops) == 1 and isinstance(rv.ops[0], ast.Eq):
                l, rr = rv.left, rv.comparators[0]
                for a, b in ((l, rr), (rr, l)):
                    if isinstance(b, ast.Constant) and b.value == b"\x1f\x8b" and isinstance(a, ast.Call) and isinstance(a.func, ast.Attribute) and a.func.attr == "read" and a.args:
                        try:
                            nbytes = const_fold(a.args[0], {})
                        except ValueError:
                            nbytes = None
                        if nbytes == 2:
                            reads_magic = True
    for r in walk_own(sn_.node):
        if isinstance(r, ast.Return) and r.value is not None and isinstance(const_value(r.value, None), bool):
            from .c09 import guards_of as _guards_of

            gs = [norm(g_) for g_, _p in _guards_of(sn_.node, r)]
            ctx.violated("R17.1", sniff.where(r), f"the sniffer answers `{norm(r.value)}` without looking at the content" + (f" when `{gs[0][:70]}`" if gs else "") + ": a BGZF file under another name (the output of `sort --bgzip --outgaf x.gaf`) is opened as text, a plain file named *.gz as BGZF", key_of(sniff, f"sniff-by-name:{norm(r.value)}:{gs[0][:40] if gs else ''}"))
    ok = reads_magic and len(opens) == 1 and norm(opens[0].args[0]) == p0 and const_value(opens[0].args[1]) == "rb" if opens and len(opens[0].args) > 1 else False
    if not ok and not opens:
        # the bytes are read through a helper (a context manager that opens and closes, a `read_magic(path, n)`): judged only
        # when the helper chain can be followed to one binary open of the same path and a read of two bytes
        from ..core import tail_inlined

        chain, seen_ = [sniff], set()
        for _ in range(3):
            for fn_ in list(chain):
                for c_ in walk_own(fn_.node):
                    if isinstance(c_, ast.Call):
                        cal_ = repo.resolve_call(fn_, c_)
                        if cal_ is not None and id(cal_.node) not in seen_ and cal_.module.name.startswith("gaftools"):
                            seen_.add(id(cal_.node))
                            chain.append(cal_)
        opens_ = [c_ for fn_ in chain for c_ in walk_own(fn_.node) if isinstance(c_, ast.Call) and norm(c_.func) == "open"]
        reads_ = [c_ for fn_ in chain for c_ in walk_own(fn_.node) if isinstance(c_, ast.Call) and isinstance(c_.func, ast.Attribute) and c_.func.attr == "read"]
        magic_ = [x_ for fn_ in chain for x_ in walk_own(fn_.node) if isinstance(x_, ast.Constant) and x_.value == b"\x1f\x8b"]
        modes_ = {const_value(a_, None) for fn_ in chain for c_ in walk_own(fn_.node) if isinstance(c_, ast.Call) for a_ in c_.args if isinstance(const_value(a_, None), str) and const_value(a_, None) in ("rb", "r", "rt", "br")}
        sizes_ = {const_value(a_, None) for fn_ in chain for c_ in walk_own(fn_.node) if isinstance(c_, ast.Call) for a_ in c_.args if isinstance(const_value(a_, None), int) and not isinstance(const_value(a_, None), bool)}
        if len(opens_) == 1 and len(reads_) == 1 and magic_ and modes_ <= {"rb", "br"} and modes_ and sizes_ == {2}:
            ctx.holds("R17.1", sniff.where(), "compression is detected from the content: two bytes read in binary mode through a helper are compared with the gzip magic number")
            ok = None
        elif len(chain) == 1 or not (opens_ or reads_):
            pass  # no helper reads the file either: the sniffer does not look at the content (reported below)
        else:
            raise AnalysisError("R17.1", sniff.where(), "the sniffer reads the file through helpers this rule cannot follow to one binary open and a two-byte read")
    if ok is not None:
        ctx.check(ok, "R17.1", sniff.where(), "compression is detected from the content: the first two bytes of the file are compared with the gzip magic number (a BGZF file under any name is recognised, a plain file named *.gz is not misread)", key_of(sniff, f"sniff:{src[:120]}"))
    # every opener of a GAF path
    n = 0
    gaf_params = {"gaf", "gaf_path", "gaf_file", "filename"}
    for f in repo.all_funcs():
        if f.module.name in ("gaftools.gfa", "gaftools.utils", "gaftools.__main__", "gaftools.timer"):
            continue
        f = inline_bool_temps(f)  # `gz = is_file_gzipped(p); if gz:` is the sniffing test itself
        if any(isinstance(x, ast.IfExp) or (isinstance(x, ast.Assign) and norm(x.value) in ("open", "gzip.open", "libcbgzf.BGZFile", "BGZFile")) for x in walk_own(f.node)):
            f = inline_callable_aliases(sink_into_branches(desugar_ifexp(f)))  # `opener = A if gz else B; opener(path)`
        for c in walk_own(f.node):
            if not isinstance(c, ast.Call):
                continue
            fn = norm(c.func)
            if fn not in ("open", "gzip.open", "libcbgzf.BGZFile", "pysam.libcbgzf.BGZFile", "BGZFile", "io.open", "bz2.open", "lzma.open") or not c.args:
                continue
            path = norm(c.args[0])
            mode_e = c.args[1] if len(c.args) > 1 else next((k.value for k in c.keywords if k.arg == "mode"), ast.Constant(value="r"))
            if isinstance(mode_e, ast.Name):
                d_ = reaching_def(f.node, stmt_of(f, c), mode_e.id)
                mode_e = d_ if d_ is not None else mode_e
            mode = const_value(mode_e, None)
            if path in gaf_params and path in f.params and not isinstance(mode, str):
                raise AnalysisError("R17.1", f.where(c), f"cannot determine the mode `{norm(mode_e)}` a GAF path is opened with")
            if not isinstance(mode, str) or any(ch in mode for ch in "wax+"):
                continue  # output files
            if path not in gaf_params or path not in f.params:
                continue
            n += 1
            st = stmt_of(f, c)
            g = guards_of(f.node, st)
            sn = []
            for t, pol in g:
                while isinstance(t, ast.UnaryOp) and isinstance(t.op, ast.Not):
                    t, pol = t.operand, not pol
                t = c03.sniff_test(f, t)
                if isinstance(t, ast.Call) and same_func(ctx.repo.resolve_call(f, t), sniff) and norm(t.args[0]) == path:
                    sn.append((t, pol))
            if not sn:
                # the test is a flag handed in by the caller (`_open_handle(filename, gzipped)`): followed to the call sites
                flags = [t_ for t_, _p in g if isinstance(t_, ast.Name) and t_.id in f.params] + [t_.operand for t_, _p in g if isinstance(t_, ast.UnaryOp) and isinstance(t_.operand, ast.Name) and t_.operand.id in f.params]
                if flags:
                    fl = flags[0].id
                    sites_ok, n_sites = True, 0
                    for cf, call_ in repo.callers_of(f):
                        cf2 = cf
                        n_sites += 1
                        off_ = 1 if f.params and f.params[0] in ("self", "cls") else 0
                        def _arg(pn):
                            i_ = f.params.index(pn) - off_
                            return call_.args[i_] if 0 <= i_ < len(call_.args) else next((k_.value for k_ in call_.keywords if k_.arg == pn), None)
                        fa, pa_ = _arg(fl), _arg(path)
                        if isinstance(fa, ast.Name):
                            d_ = [a_.value for a_ in walk_own(cf2.node) if isinstance(a_, ast.Assign) and len(a_.targets) == 1 and norm(a_.targets[0]) == fa.id]
                            fa = d_[0] if len(d_) == 1 else fa
                        if not (isinstance(fa, ast.Call) and same_func(repo.resolve_call(cf2, fa), sniff) and pa_ is not None and fa.args and norm(fa.args[0]) == norm(pa_)):
                            sites_ok = False
                    if sites_ok and n_sites:
                        pol_ = next(p_ for t_, p_ in g if (isinstance(t_, ast.Name) and t_.id == fl) or (isinstance(t_, ast.UnaryOp) and isinstance(t_.operand, ast.Name) and t_.operand.id == fl))
                        if any(isinstance(t_, ast.UnaryOp) and isinstance(t_.operand, ast.Name) and t_.operand.id == fl for t_, _p in g):
                            pol_ = not pol_
                        sn.append((None, pol_))
                    else:
                        raise AnalysisError("R17.1", f.where(c), f"`{norm(c)}` is chosen by the flag `{fl}` the caller hands in: that every caller computes it by sniffing the same path is not established")
            if not sn:
                ctx.violated("R17.1", f.where(c), f"`{norm(c)}` opens the GAF without sniffing its compression: a compressed (or, for a compressed-only opener, a plain) input is misread", key_of(f, f"unsniffed-open:{norm(c)}"))
                continue
            pol = sn[-1][1]
            if pol:
                ok = fn.endswith("BGZFile") and mode == "rb"
                ctx.check(ok, "R17.1", f.where(c), "compressed GAF input is opened with BGZFile(path, 'rb') (block-gzip: tell/seek give virtual offsets)", key_of(f, f"gz-open:{norm(c)}"), call=norm(c))
            else:
                ok = fn == "open" and mode in ("r", "rt")
                ctx.check(ok, "R17.1", f.where(c), "plain GAF input is opened in text mode", key_of(f, f"plain-open:{norm(c)}"), call=norm(c))
    if not any(i.verdict == "violated" and i.rule == "R17.1" for i in ctx.instances):
        ctx.require_count("R17.1", n, 6, "gaftools/", "open calls on a GAF path (3 openers x 2 branches)")
    # every other consumer of a GAF goes through the GAF class
    users = []
    for f in repo.all_funcs():
        for c in walk_own(f.node):
            if isinstance(c, ast.Call) and norm(c.func) == "GAF" and c.args:
                users.append(f.module.name)
    need = {"gaftools.cli.view", "gaftools.cli.index", "gaftools.cli.stat", "gaftools.cli.realign", "gaftools.cli.phase", "gaftools.conversion"}
    missing = need - set(users)
    for mname in sorted(missing):
        # a module that no longer constructs the reader may be handed one (a parameter on which read_file / read_line is called)
        handed = any(isinstance(c, ast.Call) and isinstance(c.func, ast.Attribute) and c.func.attr in ("read_file", "read_line") and isinstance(c.func.value, ast.Name) and c.func.value.id in f.params for f in repo.all_funcs() if f.module.name == mname for c in walk_own(f.node))
        if not handed:
            raise AnalysisError("R17.1", "gaftools/", f"cannot find where {mname} gets its GAF reader (no GAF(...) construction, no reader parameter)")
    ctx.holds("R17.1", "gaftools/", "view, index, stat, realign, phase and the converters read GAFs through the GAF class (which sniffs)" + (f"; handed a reader: {sorted(missing)}" if missing else ""), users=sorted(set(users)))


def stmt_of(f, target):
    best = None
    for st in walk_stmts(f.node.body):
        if any(x is target for x in ast.walk(st)) and not isinstance(st, (ast.For, ast.While, ast.If, ast.Try, ast.With)):
            best = st
    return best


GZ_ATTRS = set()


def r17_2(ctx):
    """For every function that reads a line from a maybe-BGZF handle: on every path from the read to a str-only
    use of the line, a decode has happened when the line can be bytes."""
    repo = ctx.repo
    n_sites = 0
    from ..core import tail_inlined as _ti

    # the attribute of the reader that records "opened as BGZF" (set True in the compressed branch of its opener)
    _init = repo.find_func("gaftools.gaf", "GAF.__init__")
    if _init is not None:
        for s_ in c03.opener_shape(_init):
            for x in s_[0].body:
                if isinstance(x, ast.Assign) and const_value(x.value, None) is True and norm(x.targets[0]).startswith("self."):
                    GZ_ATTRS.add(norm(x.targets[0]).split(".", 1)[1])

    if not GZ_ATTRS:
        raise AnalysisError("R17.2", "gaftools/gaf.py", "cannot find the attribute that records that a GAF was opened as BGZF (the opener of the reader class is not in a recognised form): decode guards are not decided")
    for f0 in repo.all_funcs():
        f = _ti(repo, f0)
        # handles opened by the sniff idiom in this function, or `.file` of a GAF object, or self.file in GAF
        handles = set()
        for s in c03.opener_shape(f):
            handles.add(norm(s[1].targets[0]))
        if f.cls == "GAF":
            handles.add("self.file")
        for c in walk_own(f.node):
            if isinstance(c, ast.Attribute) and c.attr == "file" and isinstance(c.value, ast.Name) and repo.local_class_of(f, c.value.id) == ("gaftools.gaf", "GAF"):
                handles.add(norm(c))
        if not handles:
            continue
        # line variables: x = h.readline()  /  for x in h
        line_defs = []
        for st in walk_own(f.node):
            if isinstance(st, ast.Assign) and isinstance(st.value, ast.Call) and isinstance(st.value.func, ast.Attribute) and st.value.func.attr == "readline" and norm(st.value.func.value) in handles and isinstance(st.targets[0], ast.Name):
                line_defs.append((st.targets[0].id, st, None))
            if isinstance(st, ast.For) and norm(st.iter) in handles and isinstance(st.target, ast.Name):
                line_defs.append((st.target.id, None, st))
        for var, asg, loop in line_defs:
            n_sites += 1
            if loop is not None:
                region = loop.body
            else:
                # the rest of the innermost statement list after the assignment
                region = None
                for nd in ast.walk(f.node):
                    for fld in ("body", "orelse"):
                        lst = getattr(nd, fld, None)
                        if isinstance(lst, list) and any(x is asg for x in lst):
                            region = lst[lst.index(asg) + 1 :]
                if region is None:
                    continue
            paths = enum_paths(region, rule="R17.2", where=f.where(asg or loop))
            bad = None
            passes_on = False
            for p in paths:
                state = "maybe-bytes"
                gz_alias = set()
                for e in p.events:
                    if e.kind == "stmt" and isinstance(e.node, ast.Assign) and len(e.node.targets) == 1 and isinstance(e.node.targets[0], ast.Name):
                        if norm(e.node.value).split(".")[-1] in GZ_ATTRS and isinstance(e.node.value, ast.Attribute):
                            gz_alias.add(e.node.targets[0].id)
                        else:
                            gz_alias.discard(e.node.targets[0].id)
                    node = e.node if e.kind in ("stmt", "test") else None
                    if e.kind == "loop" and any(isinstance(x, ast.Name) and x.id == var and isinstance(x.ctx, ast.Store) for x in ast.walk(e.node)) and e.node is not loop:
                        raise AnalysisError("R17.2", f.where(e.node), f"a nested loop rebinds the line variable `{var}`: whether it is text afterwards is not tracked")
                    if e.kind == "exc":
                        # a TypeError raised by a str operation on bytes and handled: the handler decodes
                        ht = norm(e.extra.type) if e.extra.type is not None else ""
                        if "TypeError" in ht:
                            state = "bytes"
                        continue
                    if node is None:
                        continue
                    if e.kind == "test":
                        t, tp = canon_test(node, e.pol)
                        if t == f"isinstance({var}, bytes)":
                            state = "bytes" if tp else ("str" if state != "bytes" else state)
                        elif t == f"isinstance({var}, str)":
                            state = "str" if tp else state
                        elif t.split(".")[-1] in GZ_ATTRS or t in gz_alias:
                            state = "bytes" if tp else "str"
                        continue
                    # statement
                    use = text_use(node, var, only_bytes_matter=(state == "bytes"))
                    dec = decodes(node, var)
                    if dec:
                        if rebinding(node, var):
                            state = "str"
                        # a decoded copy used inline is fine
                        continue
                    if rebinding(node, var) and not mentions(node.value if isinstance(node, ast.Assign) else node, var):
                        break  # the variable now holds something else
                    if use and state in ("bytes",):
                        bad = (p, f"`{norm(node)[:60]}` applies a str operation to a line that is bytes on this path")
                        break
                    if use and state == "maybe-bytes":
                        # allowed only inside a try whose TypeError handler decodes (the exc path is checked separately)
                        if not in_typeerror_try(f, node):
                            bad = (p, f"`{norm(node)[:60]}` applies a str operation to a line that may be bytes (BGZF input) without a decode guard")
                            break
                        state = "str"
                    if passes_to_parser(node, var):
                        passes_on = True
                if bad:
                    break
            ctx.check(bad is None, "R17.2", f.where(asg or loop), f"a line read from `{sorted(handles)[0]}` reaches str-only operations only after a decode on paths where it can be bytes", key_of(f, f"decode:{var}:{bad[1] if bad else ''}"), paths=len(paths), **({"path": bad[0].show(), "why": bad[1]} if bad else {}))
    ctx.require_count("R17.2", n_sites, 5, "gaftools/", "line reads from possibly-compressed GAF handles")
    # the parser itself: decode under gz_flag before splitting
    from ..core import tail_inlined

    pf0 = repo.func("gaftools.gaf", "GAF.parse_gaf_line", "R17.2")
    pf = tail_inlined(repo, pf0)
    # the flag: the attribute the opener sets to True in its BGZF branch only
    init = repo.func("gaftools.gaf", "GAF.__init__", "R17.2")
    flag = None
    for s_ in c03.opener_shape(init):
        trues = [norm(x.targets[0]) for x in s_[0].body if isinstance(x, ast.Assign) and const_value(x.value, None) is True and norm(x.targets[0]).startswith("self.")]
        trues_plain = [norm(x.targets[0]) for x in s_[0].orelse if isinstance(x, ast.Assign) and const_value(x.value, None) is True]
        if len(trues) == 1 and trues[0] not in trues_plain:
            flag = trues[0]
    if flag is None:
        raise AnalysisError("R17.2", init.where(), "cannot find the attribute that records that the file was opened as BGZF")
    fattr = flag.split(".", 1)[1]
    # the parser may test the attribute itself, or a parameter that every caller binds to that attribute
    gz_names = {flag}
    for p_ in pf0.params:
        if p_ == "self":
            continue
        binds = []
        for cf, call in repo.callers_of(pf0):
            ba = repo.bound_args(cf, call)
            if ba is not None and p_ in ba:
                binds.append(norm(ba[p_]))
        if binds and all(b.endswith("." + fattr) for b in binds):
            gz_names.add(p_)
    # path-based: on every path through the parser up to the tab split, the line is decoded exactly when the flag is set
    pp = enum_paths(pf.node.body, rule="R17.2", where=pf.where(), max_paths=200000)
    ok = True
    seen_gz = set()
    for p in pp:
        gz = None
        decoded = False
        split_seen = False
        palias = set()
        for e in p.events:
            if e.kind == "stmt" and isinstance(e.node, ast.Assign) and len(e.node.targets) == 1 and isinstance(e.node.targets[0], ast.Name) and norm(e.node.value) in gz_names:
                palias.add(e.node.targets[0].id)
            if e.kind == "test":
                t, tp = canon_test(e.node, e.pol)
                if (t in gz_names or t in palias) and gz is None:
                    gz = tp
            elif e.kind == "stmt":
                src = norm(e.node)
                if ".decode(" in src and not split_seen:
                    decoded = True
                if ".split('\\t')" in src and not split_seen:
                    split_seen = True
                    if gz is None:
                        raise AnalysisError("R17.2", pf.where(e.node), "the parser splits a line on a path that does not test the BGZF flag (or a parameter bound to it by every caller)")
                    if decoded != gz:
                        ok = False
                    seen_gz.add(gz)
        if split_seen and len(seen_gz) == 2 and not ok:
            break
    ok = ok and seen_gz == {True, False}
    ctx.check(ok, "R17.2", pf.where(), f"the GAF parser decodes exactly when the file was opened as BGZF (`{flag}` is set in the BGZF branch of the opener only)", key_of(pf, "parser-decode"))
    # writer side
    wt = repo.find_func("gaftools.cli.sort", "write_to_file")
    if wt is not None:
        ctx.analysed_func(wt)
        src = norm(wt.node)
        import re as _re

        ok = "except TypeError" in src and bool(_re.search(r"str\.encode\(\w+(, ?'utf-?8')?\)|\w+\.encode\((?:'utf-?8')?\)", src))
        ctx.check(ok, "R17.2", wt.where(), "the sort writer encodes the line when the output handle wants bytes (BGZF output)", key_of(wt, "writer-encode"))


def mentions(node, var):
    return any(isinstance(n, ast.Name) and n.id == var for n in ast.walk(node))


def rebinding(node, var):
    return isinstance(node, ast.Assign) and any(isinstance(t, ast.Name) and t.id == var for t in node.targets)


def decodes(node, var):
    return any(isinstance(c, ast.Call) and isinstance(c.func, ast.Attribute) and c.func.attr == "decode" and mentions(c.func.value, var) for c in ast.walk(node))


def text_use(node, var, only_bytes_matter=False):
    """A str-only operation applied directly to the line variable.  With only_bytes_matter=True, printing /
    writing the undecoded line also counts (print(bytes) writes the repr, a text handle rejects bytes)."""
    for c in ast.walk(node):
        if isinstance(c, ast.Call) and isinstance(c.func, ast.Attribute) and c.func.attr in TEXT_ONLY_METHODS:
            recv = c.func.value
            # receiver chain rooted at var with no decode in between: var.rstrip().split("\t") — the first call on var decides
            root = recv
            chain_has_decode = False
            while isinstance(root, (ast.Call, ast.Attribute)):
                if isinstance(root, ast.Call) and isinstance(root.func, ast.Attribute) and root.func.attr == "decode":
                    chain_has_decode = True
                root = root.func.value if isinstance(root, ast.Call) else root.value
            if isinstance(root, ast.Name) and root.id == var and not chain_has_decode:
                # rstrip()/strip()/startswith with str arguments fail on bytes; without arguments they work on both
                if c.func.attr in ("rstrip", "strip") and not c.args and recv is root:
                    # applies to both bytes and str; look at the next link through the outer walk
                    continue
                if any(isinstance(a, ast.Constant) and isinstance(a.value, str) for a in c.args) or c.func.attr in ("format", "encode"):
                    return True
        if isinstance(c, ast.Call) and ((isinstance(c.func, ast.Name) and c.func.id == "print") or (isinstance(c.func, ast.Attribute) and c.func.attr == "write")):
            for a in c.args:
                root = a
                dec = False
                while isinstance(root, (ast.Call, ast.Attribute)):
                    if isinstance(root, ast.Call) and isinstance(root.func, ast.Attribute) and root.func.attr == "decode":
                        dec = True
                    root = root.func.value if isinstance(root, ast.Call) else root.value
                if isinstance(root, ast.Name) and root.id == var and not dec and only_bytes_matter:
                    return True
        if isinstance(c, ast.BinOp) and isinstance(c.op, (ast.Add, ast.Mod)):
            for a, b in ((c.left, c.right), (c.right, c.left)):
                if isinstance(a, ast.Name) and a.id == var and (isinstance(b, ast.Constant) and isinstance(b.value, str) or isinstance(b, ast.BinOp)):
                    return True
        if isinstance(c, ast.AugAssign) and isinstance(c.target, ast.Name) and c.target.id == var and isinstance(c.op, ast.Add):
            return True
    return False


def in_typeerror_try(f, node):
    for t in walk_own(f.node):
        if isinstance(t, ast.Try) and any(x is node for b in t.body for x in ast.walk(b)):
            for h in t.handlers:
                if h.type is not None and "TypeError" in norm(h.type) and any(".decode(" in norm(s) for s in h.body):
                    return True
    return False


def passes_to_parser(node, var):
    return any(isinstance(c, ast.Call) and isinstance(c.func, ast.Attribute) and c.func.attr == "parse_gaf_line" for c in ast.walk(node))


def r17_5(ctx):
    """Records are delimited by the handle, not by hand: every reader of a GAF handle takes whole lines from it (iteration
    or readline()); a raw read(n) followed by a manual split re-implements line framing (and loses / glues the record at a
    chunk boundary that falls on a newline)."""
    repo = ctx.repo
    n = 0
    for f in repo.all_funcs():
        if f.module.name not in ("gaftools.gaf", "gaftools.cli.index", "gaftools.cli.sort", "gaftools.cli.view", "gaftools.conversion", "gaftools.cli.stat", "gaftools.cli.realign", "gaftools.cli.phase"):
            continue
        handles = set()
        for s_ in c03.opener_shape(f):
            handles.add(norm(s_[1].targets[0]))
        if f.cls == "GAF":
            handles.add("self.file")
        for c in walk_own(f.node):
            if isinstance(c, ast.Attribute) and c.attr == "file" and isinstance(c.value, ast.Name) and repo.local_class_of(f, c.value.id) == ("gaftools.gaf", "GAF"):
                handles.add(norm(c))
        for c in walk_own(f.node):
            if isinstance(c, ast.Call) and isinstance(c.func, ast.Attribute) and norm(c.func.value) in handles:
                n += 1
                if c.func.attr in ("read", "read1", "readinto", "readlines", "peek"):
                    ctx.violated("R17.5", f.where(c), f"`{norm(c)[:60]}` takes raw chunks from the GAF handle: record boundaries are then recomputed by hand instead of coming from the handle's own line framing", key_of(f, f"raw-read:{norm(c)[:60]}"))
            if isinstance(c, ast.For) and norm(c.iter) in handles:
                n += 1
    ctx.require_count("R17.5", n, 8, "gaftools/", "operations on GAF handles")
    if not any(i.rule == "R17.5" and i.verdict == "violated" for i in ctx.instances):
        ctx.holds("R17.5", "gaftools/", f"all {n} operations on GAF handles take whole lines (iteration / readline) or position the handle (tell / seek / close)")


def r17_8(ctx):
    """Sibling branches for the two kinds of line (bytes from a BGZF handle, str from a text handle) compute the same thing:
    `if gz: x = E(line.decode(..)) else: x = E'(line)` (also the try / except TypeError spelling) must have E == E' once
    the decode is taken out.  A strip / split that only one of them applies makes the result depend on the compression."""
    import copy

    repo = ctx.repo

    class Undecode(ast.NodeTransformer):
        def visit_Call(self, c):
            self.generic_visit(c)
            if isinstance(c.func, ast.Attribute) and c.func.attr == "decode":
                return c.func.value
            if isinstance(c.func, ast.Name) and c.func.id == "str" and len(c.args) >= 2 and isinstance(c.args[0], (ast.Name, ast.Attribute)):
                return c.args[0]
            return c

    def plain(e):
        return norm(ast.fix_missing_locations(Undecode().visit(copy.deepcopy(e))))

    n = 0
    for f in repo.all_funcs():
        if f.module.name in ("gaftools.gfa", "gaftools.timer", "gaftools.__main__"):
            continue
        pairs = []
        for st in walk_own(f.node):
            if isinstance(st, ast.If) and len(st.body) == 1 and len(st.orelse) == 1 and isinstance(st.body[0], ast.Assign) and isinstance(st.orelse[0], ast.Assign) and norm(st.body[0].targets[0]) == norm(st.orelse[0].targets[0]):
                pairs.append((st, st.body[0].value, st.orelse[0].value))
            if isinstance(st, ast.Try) and len(st.body) == 1 and len(st.handlers) == 1 and len(st.handlers[0].body) == 1 and isinstance(st.body[0], ast.Assign) and isinstance(st.handlers[0].body[0], ast.Assign) and norm(st.body[0].targets[0]) == norm(st.handlers[0].body[0].targets[0]) and st.handlers[0].type is not None and "TypeError" in norm(st.handlers[0].type):
                pairs.append((st, st.body[0].value, st.handlers[0].body[0].value))
        for st, a, b in pairs:
            da, db = ".decode(" in norm(a), ".decode(" in norm(b)
            if da == db:
                continue
            n += 1
            ok = plain(a) == plain(b)
            ctx.check(ok, "R17.8", f.where(st), "the bytes branch and the str branch of a line compute the same value once the decode is taken out (compressed and plain input are cut up alike)", key_of(f, f"decode-siblings:{plain(a)[:40]}|{plain(b)[:40]}"), bytes_branch=norm(a if da else b)[:80], str_branch=norm(b if da else a)[:80])
    ctx.require_count("R17.8", n, 2, "gaftools/", "sibling branches for bytes / str lines")
    # the bytes of a compressed file are decoded with the codec a plain file is read with (UTF-8, Python's default for text
    # files here): another codec gives other characters for the same bytes
    for f in repo.all_funcs():
        for c in walk_own(f.node):
            if isinstance(c, ast.Call) and isinstance(c.func, ast.Attribute) and c.func.attr == "decode":
                codec = c.args[0] if c.args else next((k.value for k in c.keywords if k.arg == "encoding"), None)
                if codec is None:
                    continue
                cv = const_value(codec, None)
                if not isinstance(cv, str):
                    raise AnalysisError("R17.8", f.where(c), f"cannot read the codec of `{norm(c)[:50]}`")
                if cv.lower().replace("-", "").replace("_", "") not in ("utf8", "u8", "utf"):
                    ctx.violated("R17.8", f.where(c), f"`{norm(c)[:60]}` decodes the bytes of a compressed file as {cv}, while the plain file is read as UTF-8 text: a read name or tag value with a non-ASCII character comes out differently for the compressed copy of the same file", key_of(f, f"decode-codec:{cv}"))


def r17_7(ctx):
    """Default index name: the GAF path itself plus a constant suffix, in the indexer and in view alike.  A name that drops
    the compression suffix maps aln.gaf and aln.gaf.gz to one index file, whose offsets fit only the file indexed last."""
    repo = ctx.repo
    seen = {}
    for modname in ("gaftools.cli.index", "gaftools.cli.view"):
        mod = repo.module(modname, "R17.7")
        for f in mod.funcs.values():
            gaf_params = [p_ for p_ in f.params if p_ in ("gaf", "gaf_path", "gaf_file")]
            if not gaf_params:
                continue
            gp = gaf_params[0]
            for st in walk_own(f.node):
                if not (isinstance(st, ast.Assign) and isinstance(st.targets[0], ast.Name) and st.targets[0].id in f.params and gp in names_in(st.value)):
                    continue
                consts = [x.value for x in ast.walk(st.value) if isinstance(x, ast.Constant) and isinstance(x.value, str)]
                if not any(cst.endswith(".gvi") for cst in consts):
                    continue
                v = norm(st.value)
                if v in (f"{gp} + '.gvi'", f"f'{{{gp}}}.gvi'", f"'%s.gvi' % {gp}", f"'{{}}.gvi'.format({gp})"):
                    seen[modname] = v
                    ctx.holds("R17.7", f.where(st), "the default index name is the GAF path plus '.gvi': a plain file and its compressed copy get different index files")
                elif any(k in v for k in ("[:-3]", "removesuffix(", "replace('.gz'", "splitext(", "rstrip('.gz')", "rsplit('.', 1)", ".stem")):
                    seen[modname] = v
                    ctx.violated("R17.7", f.where(st), f"the default index name `{v[:80]}` drops the compression suffix: aln.gaf and aln.gaf.gz share one index, and the offsets stored last do not resolve in the other file", key_of(f, f"index-name:{v[:60]}"))
                else:
                    raise AnalysisError("R17.7", f.where(st), f"default index name `{v[:80]}`: cannot decide whether it is one-to-one in the GAF path")
    if len(seen) < 2:
        raise AnalysisError("R17.7", "gaftools/cli/", f"default index name found in {sorted(seen)} only (expected the indexer and view)")


def r17_3(ctx):
    repo = ctx.repo
    from ..core import same_func, tail_inlined

    rg0 = repo.func("gaftools.gfa", "GFA.read_graph", "R17.3")
    rg = tail_inlined(repo, rg0, keep=lambda c: c.name in ("add_node", "add_edge"))
    from ..core import while_next_loops

    rg = while_next_loops(rg)  # `it = iter(h); line = next(it, None); while line is not None: ...` is `for line in h:`
    ctx.analysed_func(rg)
    p0 = rg.params[1]
    # private helpers that only the reader (or such a helper) calls belong to the reader
    own = {rg0.qualname}
    grew = True
    while grew:
        grew = False
        for cand in rg0.module.funcs.values():
            if cand.qualname in own:
                continue
            callers = repo.callers_of(cand)
            if callers and all(cf.qualname in own and cf.module is rg0.module for cf, _ in callers):
                own.add(cand.qualname)
                grew = True
    chain = [s for s in rg.node.body if isinstance(s, ast.If) and "endswith" in norm(s.test)]
    ok = False
    detail = {}
    if chain:
        c = chain[0]
        t1 = norm(c.test)
        b1 = [norm(s.value) for s in c.body if isinstance(s, ast.Assign)]
        els = c.orelse[0] if len(c.orelse) == 1 and isinstance(c.orelse[0], ast.If) else None
        t2 = norm(els.test) if els else None
        b2 = [norm(s.value) for s in els.body if isinstance(s, ast.Assign)] if els else []
        final = els.orelse if els else []
        # the two suffix tests exclude each other, so they may come in either order
        arms = {t1: b1, t2: b2}
        gz_, pl_ = arms.get(f"{p0}.endswith('.gz')"), arms.get(f"{p0}.endswith('.gfa')")
        ok = gz_ == [f"gzip.open({p0}, 'rt')"] and pl_ in ([f"open({p0}, 'r')"], [f"open({p0}, 'rt')"], [f"open({p0})"]) and any(isinstance(s, ast.Raise) for s in final)
        detail = {"gz": gz_ if gz_ is not None else b1, "plain": pl_ if pl_ is not None else b2}
        if not ok and gz_ is not None and pl_ is not None and len(gz_) == 2 and len(pl_) == 2:
            # the arms only choose (opener, mode); one call `opener(path, mode)` opens the file afterwards
            def _names(arm):
                return [norm(t_) for s_ in arm for t_ in s_.targets] if all(isinstance(s_, ast.Assign) and len(s_.targets) == 1 for s_ in arm) else None

            arm_gz = c.body if t1 == f"{p0}.endswith('.gz')" else (els.body if els else [])
            nm_ = _names([s_ for s_ in arm_gz if isinstance(s_, ast.Assign)])
            calls_ = [x_ for x_ in walk_own(rg.node) if isinstance(x_, ast.Call) and nm_ and len(nm_) == 2 and norm(x_.func) == nm_[0] and [norm(a_) for a_ in x_.args] == [p0, nm_[1]]]
            if nm_ and len(calls_) == 1 and gz_ == ["gzip.open", "'rt'"] and pl_ in (["open", "'r'"], ["open", "'rt'"]) and any(isinstance(s, ast.Raise) for s in final):
                ok = True
            elif nm_ and calls_:
                raise AnalysisError("R17.3", rg.where(), f"the reader chooses its opener and mode in the suffix arms ({gz_}, {pl_}): not one of the pairs this rule knows")
    ctx.check(ok, "R17.3", rg.where(), "the graph reader opens *.gz with gzip.open(..., 'rt') and *.gfa with open(..., 'r') - the same text lines either way - and rejects any other name", key_of(rg, f"graph-opener:{detail}"), **detail)
    # who opens graph files elsewhere
    others = []
    for f in repo.all_funcs():
        if f.module is rg0.module and f.qualname in own:
            continue
        for c in walk_own(f.node):
            if isinstance(c, ast.Call) and norm(c.func) in ("open", "gzip.open") and c.args:
                pth = norm(c.args[0])
                mode = const_value(c.args[1], "r") if len(c.args) > 1 else "r"
                if isinstance(mode, str) and not any(ch in mode for ch in "wax+") and ("gfa" in pth.lower() or "graph" in pth.lower()) and pth in f.params:
                    others.append(f"{f.qualname}: {norm(c)}")
    ctx.check(not others, "R17.3", "gaftools/", "graph files are opened for reading only inside GFA.read_graph", "gaftools::graph-openers", others=others)
    users = set()
    for f in repo.all_funcs():
        for c in walk_own(f.node):
            if isinstance(c, ast.Call) and norm(c.func) == "GFA" and (c.args or any(k.arg == "graph_file" for k in c.keywords)):
                users.add(f.module.name)
    need = {"gaftools.cli.view", "gaftools.cli.index", "gaftools.cli.sort", "gaftools.cli.realign", "gaftools.cli.find_path", "gaftools.cli.order_gfa"}
    ctx.check(need <= users, "R17.3", "gaftools/", "all six subcommands that take a graph load it through GFA(path, ...)", "gaftools::graph-users", users=sorted(users))
    # the line loop does not depend on how the file was opened
    loops = [l for l in rg.node.body if isinstance(l, ast.For)]
    if not loops:
        raise AnalysisError("R17.3", rg.where(), "cannot find the loop over the lines of the graph file in the reader")
    ok2 = bool(loops) and norm(loops[0].iter) == "opened_file" or (bool(loops) and isinstance(loops[0].iter, ast.Name))
    if not ok2 and isinstance(loops[0].iter, ast.Call) and ctx.repo.resolve_call(rg, loops[0].iter) is not None:
        raise AnalysisError("R17.3", rg.where(loops[0]), f"the lines are produced by `{norm(loops[0].iter.func)}`: whether one loop serves both forms is not read from it")
    ctx.check(ok2, "R17.3", rg.where(), "one line loop serves both forms", key_of(rg, "one-loop"))
