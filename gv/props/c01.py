"""C01 — coordinate conversion designates the same aligned locus.

R01.1  the segment overlap filter is exact (complete decision table over the orderings of segment
       [s,e) and query [qs,qe)); the binary search only discards what cannot overlap; the consumer's
       slice agrees with the search's inclusive window
R01.2  merge_nodes yields the interval union exactly for same-contig, same-orientation, touching
       intervals (complete decision table)
R01.3  CIGAR reversed exactly when the strand column flips
R01.4  path length follows the emitted path
R01.5  unstable->stable folds the node run correctly (accumulated run + next node)
R01.6  offset arithmetic: the affine forms of the emitted path start / end / length on every branch
       are the ones that designate the same bases
"""

from __future__ import annotations

import ast

from ..core import AnalysisError, const_value, norm, walk_own, walk_stmts, names_in
from ..paths import enum_paths, canon_test
from .. import ordtab, tmpl
from ..affine import Aff, AffEval, make
from . import conv_common as cc
from . import emit
from .c09 import guards_of
from .common import key_of

META = {
    "explanation": "Static decision of the coordinate conversion's shape: (R01.1) the guard chain that decides whether a reference segment belongs to a "
    "converted interval is evaluated on every weak ordering of the segment bounds and the query bounds (s<e, qs<qe: 13 order types) and must "
    "accept exactly the overlapping ones, in conversion.to_unstable and in its sibling index.convert_coord; the recursive interval search may "
    "descend left only when qe <= s(mid) and right only when qs >= e(mid), and its inclusive window must be consumed as [start : end + 1]; "
    "(R01.2) merge_nodes' complete table over contig equality, orientations and the 75 orderings of the four bounds equals 'touching, same "
    "contig, same orientation -> union'; (R01.5) the run-folding loop feeds the accumulated run and the next node; (R01.3) on every path the "
    "CIGAR is reversed iff the strand column flips (and a CIGAR exists); (R01.4/R01.6) the emitted path length / start / end are reduced to "
    "affine normal forms over the inputs on every branch and compared with the forms that designate the same bases.  Not decided: that "
    "reverse_cigar itself reverses correctly, and the arithmetic inside loops over arbitrarily many nodes beyond the per-iteration forms.",
    "technique": "static analysis: order-type decision tables, affine abstract interpretation along enumerated paths, string templates, guard equivalence",
    "exhaustive": True,
}


def check(ctx):
    m = cc.build(ctx, "R01")
    ctx.run(r01_1_filter, m, m.to_unstable[0], "R01.1")
    ctx.run(r01_1_search, m)
    ctx.run(r01_2, m)
    ctx.run(r01_5, m)
    ctx.run(r01_3, m)
    ctx.run(r01_46_stable, m)
    ctx.run(r01_46_unstable, m)
    from . import c03

    ctx.run(c03.r03_7)  # the segment tables the search runs on are SO-sorted
    ctx.run(c03.r03_4, None)
    ctx.run(r01_8)
    ctx.run(r01_9, m)
    ctx.not_decided += [
        "utils.reverse_cigar's index arithmetic (that the reversed CIGAR is the op-wise reverse)",
        "view.run's construction of the node->interval map and contig lengths from the rGFA tags (checked only for call-site agreement in C03/C04)",
    ]
    # mechanisms this property rests on (see shared.py): a change there is reported here as well
    from . import shared as _sh

    # a record that is left out of the converted stream designates nothing: the 1:1 streaming rule of C02 is C01's too
    from . import c02 as _c02

    ctx.run_shared(lambda c_: _c02.r02_1(c_, m))
    ctx.run_shared(_sh.path_tokenisers)
    ctx.run_shared(_sh.gaf_reader)
    ctx.run_shared(_sh.graph_loader)
    ctx.run_shared(_sh.contig_paths)
    ctx.run_shared(_sh.cli_layer, "gaftools.cli.view")


# ---------------------------------------------------------------------------------------------


def r01_1_filter(ctx, m, func, rule):
    from ..core import inline_bool_temps

    func = inline_bool_temps(func)  # `overlaps = s < qe and qs < e; if overlaps:` is the test itself
    site = cc.find_overlap_site(ctx, func, m.search, rule)
    rows = 0
    bad = None
    for env, scale in cc.interval_envs():
        rows += 1
        ps = ordtab.consistent_paths(site.paths, env, site.atom_of, scale)
        outcomes = {any(e.kind == "stmt" and e.node is site.append for e in p.events) for p in ps}
        want = env["s"] < env["qe"] and env["qs"] < env["e"]
        if outcomes != {want}:
            bad = {"ordering": cc.show_order(env), "segment_kept": sorted(outcomes), "overlaps": want}
            break
    # leaving the scan early is sound only once the segment starts at or beyond the query end (the list is SO-sorted):
    # on every ordering consistent with a `break` path, s >= qe must hold
    for p in site.paths:
        if p.term != "break":
            continue
        unjust = None
        n_cons = 0
        for env, scale in cc.interval_envs():
            if ordtab.consistent_paths([p], env, site.atom_of, scale):
                n_cons += 1
                if not env["s"] >= env["qe"]:
                    unjust = cc.show_order(env)
        if unjust is not None or n_cons == 0:
            ctx.violated(rule, func.where(site.loop), "the scan over the search window stops early (`break`) at a segment that does not start at or beyond the query end: the segments that follow in the window are never examined" + (f" (possible under {unjust})" if unjust else ""), key_of(func, "overlap-early-break"), path=p.show())
            break
    # the atoms must actually have been recognised: a filter that never mentions s/e/qs/qe is not a filter
    used = set()
    for p in site.paths:
        for t, _ in p.tests():
            for n in ast.walk(t):
                a = site.atom_of(n) if isinstance(n, ast.expr) else None
                if a:
                    used.add(a)
    if used != {"s", "e", "qs", "qe"}:
        # operands of the guards that are neither one of the four interval ends nor a constant: the filter is not understood
        unknown = set()
        for p in site.paths:
            for t, _ in p.tests():
                for c in ast.walk(t):
                    if isinstance(c, ast.Compare):
                        for o in [c.left] + list(c.comparators):
                            if not isinstance(o, ast.Constant) and site.atom_of(o) is None and not (isinstance(o, ast.UnaryOp) and isinstance(o.operand, ast.Constant)):
                                unknown.add(norm(o)[:40])
        # a test that is a bare name bound to something other than constants (a boolean computed elsewhere) is not understood either
        for p in site.paths:
            for t, _ in p.tests():
                t0 = t.operand if isinstance(t, ast.UnaryOp) else t
                if isinstance(t0, ast.Name):
                    ds = site.local.get(t0.id, []) + site.hoisted.get(t0.id, [])
                    if not ds or not all(isinstance(d_, ast.Constant) for d_ in ds):
                        unknown.add(f"<{t0.id}>")
        plain_flags = {u for u in unknown if u.isidentifier()}  # e.g. the `cases` code: a flag variable, not an interval end
        if bad is None or (unknown - plain_flags):
            raise AnalysisError(rule, func.where(site.loop), f"overlap filter: only atoms {sorted(used)} recognised in the guards (not understood: {sorted(unknown)[:4]})")
    ctx.check(bad is None, rule, func.where(site.loop), "overlap filter is exact: a segment [s,e) is kept exactly when it overlaps the query [qs,qe) (s < qe and qs < e), on all 13 orderings", key_of(func, f"overlap-filter:{bad['ordering'] if bad else ''}"), rows=rows, **({"witness": bad} if bad else {}))
    # slice convention
    sl = site.slice
    from ..core import reaching_def

    def _bound(b):
        if isinstance(b, ast.Name) and b.id not in (site.lo, site.hi):
            d_ = reaching_def(func.node, site.loop, b.id)
            if d_ is None:
                raise AnalysisError(rule, func.where(site.loop), f"cannot find the definition of the slice bound `{b.id}`")
            return d_
        return b

    conv = search_convention(m)
    uppers = (site.hi,) if conv == "halfopen" else (f"{site.hi} + 1", f"1 + {site.hi}")
    ok = sl.lower is not None and norm(_bound(sl.lower)) == site.lo and sl.upper is not None and norm(_bound(sl.upper)) in uppers and sl.step is None
    ctx.check(ok, rule, func.where(site.loop), "the search window is scanned completely: [start : end + 1] for the inclusive window the search returns" if conv != "halfopen" else "the search window is scanned completely: [start : stop] for the half-open window the search returns", key_of(func, f"window-slice:{norm(site.loop.iter)}"), slice=norm(site.loop.iter), convention=conv)
    # search call arguments: same list, initial window covers the list
    a = site.search_call.args
    ok_args = len(a) == 5 and const_value(a[3]) == 0 and norm(a[4]) in (f"len({norm(a[0])})", f"len({norm(a[0])}) - 1")
    ctx.check(ok_args, rule, func.where(site.search_call), "the search starts on the whole segment list of the query's contig", key_of(func, f"search-args:{norm(site.search_call)}"))
    return site


def r01_1_search(ctx, m):
    from ..core import local_defs, normal, same_func

    f = normal(ctx.repo, m.search)
    sdefs = local_defs(f.node)
    if len(f.params) != 5:
        raise AnalysisError("R01.1", f.where(), "interval search does not have the (intervals, query_start, query_end, start, end) signature")
    iv, qs, qe, lo, hi = f.params
    mids = [st for st in walk_own(f.node) if isinstance(st, ast.Assign) and isinstance(st.targets[0], ast.Name) and lo in names_in(st.value) and hi in names_in(st.value)]
    if len(mids) != 1:
        raise AnalysisError("R01.1", f.where(), "cannot find the midpoint assignment")
    mid = mids[0].targets[0].id
    seg = f"{iv}[{mid}]"

    def atom_of(e, depth=0):
        e0 = cc.strip_int(e)
        t = norm(e0)
        if t == f"{seg}.tags['SO'][1]":
            return "s"
        if isinstance(e0, ast.BinOp) and isinstance(e0.op, ast.Add):
            l, r = cc.strip_int(e0.left), cc.strip_int(e0.right)
            if {norm(l), norm(r)} == {f"{seg}.tags['SO'][1]", f"{seg}.tags['LN'][1]"}:
                return "e"
            if (atom_of(l, depth + 1) == "s" and norm(r) == f"{seg}.tags['LN'][1]") or (atom_of(r, depth + 1) == "s" and norm(l) == f"{seg}.tags['LN'][1]"):
                return "e"
        if t == qs:
            return "qs"
        if t == qe:
            return "qe"
        if isinstance(e0, ast.Name) and depth < 3 and e0.id not in f.params:
            d = sdefs.get(e0.id, [])
            if len(d) == 1 and d[0] is not None:
                return atom_of(d[0], depth + 1)
        return None

    wloops = [w for w in f.node.body if isinstance(w, ast.While)]
    iterative = bool(wloops) and any(x is mids[0] for x in ast.walk(wloops[0]))
    paths = enum_paths(wloops[0].body if iterative else f.node.body, rule="R01.1", where=f.where())

    conv = search_convention(m)

    def outcome(p):
        if iterative and p.term in ("fall", "continue", "loopback"):
            asg = {norm(e.node.targets[0]): norm(e.node.value) for e in p.events if e.kind == "stmt" and isinstance(e.node, ast.Assign) and norm(e.node.targets[0]) in (lo, hi)}
            if asg == {hi: f"{mid} - 1"}:
                return "left"
            if asg == {lo: f"{mid} + 1"}:
                return "right"
            return "bad-window:" + str(asg)
        if p.term != "return" or p.term_node.value is None:
            return "none"
        v = p.term_node.value
        if isinstance(v, ast.Call) and same_func(ctx.repo.resolve_call(f, v), f):
            a = [norm(x) for x in v.args]
            if a[:3] != [iv, qs, qe]:
                return "bad-args"
            if a[3] == lo and a[4] in (f"{mid} - 1",):
                return "left"
            if a[4] == hi and a[3] in (f"{mid} + 1",):
                return "right"
            return "bad-window:" + ",".join(a[3:])
        if isinstance(v, ast.Tuple) and [norm(x) for x in v.elts] == [lo, hi] and conv != "halfopen":
            return "stop"
        if isinstance(v, ast.Tuple) and len(v.elts) == 2 and norm(v.elts[0]) == lo and norm(v.elts[1]) in (f"{hi} + 1", f"1 + {hi}") and conv == "halfopen":
            return "stop"  # the same window, handed back half-open (every caller slices [first:stop], see the window-slice rule)
        if isinstance(v, ast.Tuple) and len(v.elts) == 2 and all(isinstance(const_value(x, None), int) for x in v.elts):
            a_, b_ = const_value(v.elts[0]), const_value(v.elts[1])
            u_ = b_ if conv == "halfopen" else b_ + 1  # the slice [a_:u_] the callers take must be empty for every list
            if (a_ >= 0 and 0 <= u_ <= a_) or (a_ < 0 and u_ == 0) or (a_ < 0 and u_ < 0 and u_ <= a_):
                return "empty"
        return "other:" + norm(v)

    bad = None
    rows = 0
    for env, scale in cc.interval_envs():
        rows += 1
        ps = [p for p in ordtab.consistent_paths(paths, env, atom_of, scale)]
        outs = {outcome(p) for p in ps} - {"empty"}
        for o in outs:
            if o == "left" and not env["qe"] <= env["s"]:
                bad = {"ordering": cc.show_order(env), "action": "discards mid and everything right of it", "but": "segment mid may overlap or lie left of the query"}
            elif o == "right" and not env["qs"] >= env["e"]:
                bad = {"ordering": cc.show_order(env), "action": "discards mid and everything left of it", "but": "segment mid may overlap or lie right of the query"}
            elif o not in ("left", "right", "stop"):
                bad = {"ordering": cc.show_order(env), "action": o}
        if not outs:
            bad = {"ordering": cc.show_order(env), "action": "no outcome"}
        # progress: when mid does not overlap, the search must move on (otherwise the window never shrinks: harmless but slow) - not required
        if bad:
            break
    ctx.check(bad is None, "R01.1", f.where(), "binary search over the SO-sorted segments: descends left only when qe <= s(mid), right only when qs >= e(mid), otherwise returns the current inclusive window", key_of(f, f"search-table:{bad['ordering'] if bad else ''}"), rows=rows, **({"witness": bad} if bad else {}))
    # base case: the inclusive window [start, end] is non-empty exactly when start <= end
    guards = [st for st in f.node.body if isinstance(st, (ast.If, ast.While)) and lo in names_in(st.test) and hi in names_in(st.test)]
    badg = None
    if guards:
        def atom2(e):
            t = norm(e)
            return "lo" if t == lo else ("hi" if t == hi else None)
        for env, scale in ordtab.weak_orderings(["lo", "hi"], []):
            try:
                v = ordtab.Evaluator(env, atom2, scale).truth(guards[0].test)
            except ordtab.Unsupported as ex:
                raise AnalysisError("R01.1", f.where(guards[0]), f"window guard outside the fragment: {ex}")
            searched = any(x is mids[0] for b in guards[0].body for x in ast.walk(b)) == v or (any(x is mids[0] for b in guards[0].orelse for x in ast.walk(b)) == (not v))
            want = env["lo"] <= env["hi"]
            in_body = any(x is mids[0] for b in guards[0].body for x in ast.walk(b))
            examined = v if in_body else (not v)
            if examined != want:
                badg = {"start_vs_end": "start < end" if env["lo"] < env["hi"] else ("start = end" if env["lo"] == env["hi"] else "start > end"), "window_examined": examined}
    ctx.check(bool(guards) and badg is None, "R01.1", f.where(), "the search examines the midpoint exactly when the inclusive window [start, end] is non-empty (start <= end): a one-element window is still searched", key_of(f, f"search-base:{norm(guards[0].test) if guards else None}"), **({"witness": badg} if badg else {}))
    mid_ok = norm(mids[0].value) in (f"{lo} + ({hi} - {lo}) // 2", f"({lo} + {hi}) // 2", f"({hi} + {lo}) // 2", f"int(({lo} + {hi}) / 2)")
    ctx.check(mid_ok, "R01.1", f.where(mids[0]), "the midpoint lies inside the inclusive window [start, end]", key_of(f, f"mid:{norm(mids[0].value)}"))


# ---------------------------------------------------------------------------------------------


def r01_2(ctx, m):
    f = m.merge
    if len(f.params) != 4:
        raise AnalysisError("R01.2", f.where(), "merge function does not take (node1, node2, orient1, orient2)")
    n1, n2, o1, o2 = f.params
    paths = enum_paths(f.node.body, rule="R01.2", where=f.where())

    def atom_of(e):
        t = norm(e)
        for n, tag in ((n1, "a"), (n2, "b")):
            if t == f"{n}.start":
                return f"{tag}s"
            if t == f"{n}.end":
                return f"{tag}e"
            if t == f"{n}.contig_id":
                return f"{tag}c"
        if t == o1:
            return "o1"
        if t == o2:
            return "o2"
        return None

    rows = 0
    bad = None
    for env0, scale in ordtab.weak_orderings(["as", "ae", "bs", "be"], []):
        if not (env0["as"] < env0["ae"] and env0["bs"] < env0["be"]):
            continue
        for same in (True, False):
            for vo1 in (">", "<"):
                for vo2 in (">", "<"):
                    env = dict(env0)
                    env.update({"ac": 0, "bc": 0 if same else 1, "o1": vo1, "o2": vo2})
                    rows += 1
                    ps = ordtab.consistent_paths(paths, env, atom_of, scale)
                    if len(ps) != 1:
                        bad = {"case": describe(env), "problem": f"{len(ps)} consistent paths (guards outside the comparison fragment?)"}
                        break
                    p = ps[0]
                    ret = p.term_node.value if p.term == "return" else None
                    touching = env["ae"] == env["bs"] if vo1 == ">" else env["as"] == env["be"]
                    want = same and vo1 == vo2 and touching
                    got_false = ret is not None and const_value(ret, "?") is False
                    if not want:
                        if not got_false:
                            bad = {"case": describe(env), "problem": "intervals must not be merged, but a merged node is returned"}
                            break
                        continue
                    if got_false or ret is None:
                        bad = {"case": describe(env), "problem": "touching intervals of the same contig and orientation are not merged"}
                        break
                    # the merged node: constructor call assigned on this path
                    ctor = None
                    for e in p.events:
                        if e.kind == "stmt" and isinstance(e.node, ast.Assign) and isinstance(e.node.value, ast.Call) and len(e.node.value.args) == 3:
                            ctor = e.node.value
                    if ctor is None and isinstance(ret, (ast.List, ast.Tuple)) and isinstance(ret.elts[0], ast.Call):
                        ctor = ret.elts[0]
                    if ctor is None:
                        bad = {"case": describe(env), "problem": "cannot find the merged node's constructor on this path"}
                        break
                    ev = ordtab.Evaluator(env, atom_of, scale)
                    try:
                        cs, ce = ev.expr(ctor.args[1]), ev.expr(ctor.args[2])
                        cc_ = ev.expr(ctor.args[0])
                    except ordtab.Unsupported as ex:
                        raise AnalysisError("R01.2", f.where(ctor), f"merged node arguments outside the fragment: {ex}")
                    if (cs, ce) != (min(env["as"], env["bs"]), max(env["ae"], env["be"])) or cc_ != 0:
                        bad = {"case": describe(env), "problem": f"merged interval is [{cs},{ce}) instead of the union [{min(env['as'], env['bs'])},{max(env['ae'], env['be'])})"}
                        break
                    if isinstance(ret, (ast.List, ast.Tuple)) and len(ret.elts) == 2:
                        try:
                            ro = ev.expr(ret.elts[1])
                        except ordtab.Unsupported:
                            ro = None
                        if ro != vo1:
                            bad = {"case": describe(env), "problem": "orientation of the merged run is not the common orientation"}
                            break
                if bad:
                    break
            if bad:
                break
        if bad:
            break
    ctx.check(bad is None, "R01.2", f.where(), "merge decision table: merged exactly when same contig, same orientation and touching on the side the orientation implies; the result is the interval union with that orientation", key_of(f, f"merge-table:{bad['problem'] if bad else ''}"), rows=rows, **({"witness": bad} if bad else {}))


def describe(env):
    return {"node1": [env["as"], env["ae"]], "node2": [env["bs"], env["be"]], "same_contig": env["ac"] == env["bc"], "orient1": env["o1"], "orient2": env["o2"]}


# ---------------------------------------------------------------------------------------------


def search_convention(m):
    """how the interval search hands back its window: "closed" (lo, hi) or "halfopen" (lo, hi + 1), read from its returns"""
    f = m.search
    if len(f.params) < 5:
        return "closed"
    lo, hi = f.params[3], f.params[4]
    convs = set()
    for r in walk_own(f.node):
        if isinstance(r, ast.Return) and isinstance(r.value, ast.Tuple) and len(r.value.elts) == 2 and norm(r.value.elts[0]) == lo:
            b = norm(r.value.elts[1])
            if b == hi:
                convs.add("closed")
            elif b in (f"{hi} + 1", f"1 + {hi}"):
                convs.add("halfopen")
    return "halfopen" if convs == {"halfopen"} else "closed"


def r01_5_joins(ctx, m):
    """Intervals are joined only by the merge function (which tests that they touch): an interval put together in the converter
    itself from the start of one node's interval and the end of another's — a fast path for "the walk is one stretch" —
    also covers whatever lies between them on the contig (an alternative allele of the same length, an inverted inner node)."""
    g = m.to_stable[0]
    from .c09 import guards_of

    for c in walk_own(g.node):
        if not isinstance(c, (ast.Call, ast.Tuple, ast.List)):
            continue
        args = c.args if isinstance(c, ast.Call) else c.elts
        starts = {norm(a.value) for a in args if isinstance(a, ast.Attribute) and a.attr == "start" and isinstance(a.value, (ast.Name, ast.Subscript))}
        ends = {norm(a.value) for a in args if isinstance(a, ast.Attribute) and a.attr == "end" and isinstance(a.value, (ast.Name, ast.Subscript))}
        if not (starts and ends and not (starts & ends)):
            continue
        st_ = None
        for s2 in walk_stmts(g.node.body):
            if not isinstance(s2, (ast.If, ast.For, ast.While, ast.With, ast.Try)) and any(x is c for x in ast.walk(s2)):
                st_ = s2
        touching = False
        for t_, pol_ in guards_of(g.node, st_) if st_ is not None else []:
            for q in ast.walk(t_):
                if isinstance(q, ast.Compare) and len(q.ops) == 1 and isinstance(q.ops[0], ast.Eq) and isinstance(q.left, ast.Attribute) and isinstance(q.comparators[0], ast.Attribute) and {q.left.attr, q.comparators[0].attr} == {"start", "end"}:
                    touching = True  # `a.end == b.start`: an adjacency test of its own, not decided here
        if touching:
            continue
        ctx.violated("R01.5", g.where(c), f"`{norm(c)[:80]}` joins the start of one node's interval with the end of another's inside the converter, without the merge function's test that consecutive intervals touch: a walk that leaves the contig in between (an alternative allele of the same length `>s1>s5>s3`, an inverted inner node, a deletion edge) becomes one interval that spells other bases", key_of(g, f"join-without-adjacency:{norm(c)[:50]}"))


def r01_5(ctx, m):
    ctx.run(r01_5_joins, m, _independent=True)
    f, rec, n = m.to_stable
    call = m.merge_call
    # the loop containing the merge call
    loop = None
    for l in walk_own(f.node):
        if isinstance(l, ast.For) and any(x is call for x in ast.walk(l)):
            loop = l
    if loop is None:
        raise AnalysisError("R01.5", f.where(call), "merge call is not inside a loop")
    iv = norm(loop.target)
    it = loop.iter
    slice_form = isinstance(it, ast.Subscript) and isinstance(it.slice, ast.Slice) and isinstance(loop.target, ast.Tuple) and len(loop.target.elts) == 2
    zip_form = isinstance(it, ast.Call) and norm(it.func) == "zip" and len(it.args) == 2 and norm(it.args[1]) == f"{norm(it.args[0])}[1:]" and isinstance(loop.target, ast.Tuple) and len(loop.target.elts) == 2 and all(isinstance(e, ast.Tuple) and len(e.elts) == 2 for e in loop.target.elts)
    if zip_form:
        # for (prev, prev_orient), (node, orient) in zip(L, L[1:]): the second pair is the next input node
        src_list = norm(it.args[0])
        mm = norm(it)
        ok_range = True
        nxt = [norm(e) for e in loop.target.elts[1].elts]
    elif slice_form:
        # for node, orient in L[1:]
        src_list = norm(it.value)
        mm = norm(it)
        ok_range = const_value(it.slice.lower) == 1 and it.slice.upper is None and it.slice.step is None
        nxt = [norm(e) for e in loop.target.elts]
    else:
        if isinstance(it, ast.Call) and norm(it.func) == "range" and len(it.args) == 2 and const_value(it.args[0]) == 1 and norm(it.args[1]).startswith("len("):
            # for i in range(1, len(list)): the next input node is list[i]
            mm = norm(it.args[1])
            src_list = mm[4:].split(")")[0]
            ok_range = mm == f"len({src_list})"
            nxt = [f"{src_list}[{iv}][0]", f"{src_list}[{iv}][1]"]
        else:
            if not (isinstance(it, ast.Call) and norm(it.func) == "range" and len(it.args) == 1):
                raise AnalysisError("R01.5", f.where(loop), "fold loop is neither `for i in range(len(list) - 1)` nor `for node, orient in list[1:]`")
            mm = norm(it.args[0])
            src_list = mm[4:].split(")")[0] if mm.startswith("len(") else None
            ok_range = mm == f"len({src_list}) - 1"
            nxt = [f"{src_list}[{iv} + 1][0]", f"{src_list}[{iv} + 1][1]"]
    from ..core import local_defs, resolve_expr

    ldefs = local_defs(ast.Module(body=loop.body, type_ignores=[]))
    local = {k: norm(v[0]) for k, v in ldefs.items() if len(v) == 1 and v[0] is not None}
    args = [resolve_expr(None, a, defs=ldefs) for a in call.args]
    # accumulator: list initialised [src[0]] before the loop
    acc = None
    for st in f.node.body:
        if isinstance(st, ast.Assign) and isinstance(st.targets[0], ast.Name) and norm(st.value) == f"[{src_list}[0]]":
            acc = st.targets[0].id
    if acc is None:
        raise AnalysisError("R01.5", f.where(loop), f"cannot find the output list of the fold (a list initialised `[{src_list}[0]]` before the loop): the run being extended may be carried in local variables, which this rule does not follow")
    want = [f"{acc}[-1][0]", nxt[0], f"{acc}[-1][1]", nxt[1]]
    import re as _re

    args = [_re.sub(r"(\w+)\[len\(\1\) - 1\]", r"\1[-1]", a_) for a_ in args]  # X[len(X) - 1] is X[-1]
    if acc is not None and args != want:
        known = {acc, src_list, iv, "len"} | {x.id for x in ast.walk(loop.target) if isinstance(x, ast.Name)}
        stray = sorted({x.id for a_ in args for x in ast.walk(ast.parse(a_, mode="eval")) if isinstance(x, ast.Name)} - known)
        if stray or any("len(" in a_ for a_ in args):
            raise AnalysisError("R01.5", f.where(call), f"cannot read the arguments of the merge call {args} as (last output element, next input node)")
    ctx.check(ok_range and acc is not None and args == want, "R01.5", f.where(call), "the fold merges the accumulated run (last output element) with the next input node, over all consecutive pairs", key_of(f, f"fold-args:{args}"), args=args, expected=want, range=mm)
    if acc is None:
        return
    # result handling
    res = None
    for st in loop.body:
        if isinstance(st, ast.Assign) and st.value is call:
            res = norm(st.targets[0])
    iff = [st for st in loop.body if isinstance(st, ast.If) and res and res in norm(st.test)]
    ok = False
    detail = {}
    if iff:
        st = iff[0]
        if not st.orelse and st.body and isinstance(st.body[-1], ast.Continue) and st in loop.body:
            # guard clause: `if C: A; continue` followed by B is `if C: A else: B`
            st = ast.If(test=st.test, body=st.body[:-1] or [ast.Pass()], orelse=loop.body[loop.body.index(st) + 1 :])
            ast.copy_location(st, iff[0])
        t, pol = canon_test(st.test, True)
        fail_body, ok_body = (st.body, st.orelse) if (t == f"{res} is False" and pol) or (t == res and not pol) or (t == f"{res} == False" and pol) else (st.orelse, st.body)
        fb = [norm(s) for s in fail_body]
        ob = [norm(s) for s in ok_body]

        def rtext(s_):
            """statement text with the loop's single-assignment temporaries expanded (previous = acc[-1]; n1 = previous[0] ...)"""
            e_ = s_.value if isinstance(s_, (ast.Assign, ast.AugAssign, ast.Expr)) else None
            return _re.sub(r"(\w+)\[\(?len\(\1\) - 1\)?\]", r"\1[-1]", resolve_expr(None, e_, defs=ldefs)) if e_ is not None else norm(s_)

        def is_emit(s_):
            if isinstance(s_, ast.AugAssign) and isinstance(s_.op, ast.Add):
                return True
            return isinstance(s_, ast.Expr) and isinstance(s_.value, ast.Call) and isinstance(s_.value.func, ast.Attribute) and s_.value.func.attr == "append" and norm(s_.value.func.value) != acc

        emit_ok = any(is_emit(s_) and want[0] in rtext(s_) and want[2] in rtext(s_) for s_ in fail_body)
        app_ok = any(isinstance(s_, ast.Expr) and isinstance(s_.value, ast.Call) and norm(s_.value.func) == f"{acc}.append" and len(s_.value.args) == 1 and resolve_expr(None, s_.value.args[0], defs=ldefs).replace(" ", "") in (f"[{want[1]},{want[3]}]".replace(" ", ""), (nxt[0][:-3].replace(" ", "") if not (slice_form or zip_form) else "")) for s_ in fail_body)
        rep_ok = ob == [f"{acc}[-1] = {res}"]
        if not rep_ok and len(ok_body) == 1 and isinstance(ok_body[0], ast.Assign) and isinstance(ok_body[0].targets[0], ast.Subscript) and norm(ok_body[0].targets[0].value) == acc and norm(ok_body[0].value) == res:
            idx = _re.sub(r"len\((\w+)\) - 1", "-1", resolve_expr(None, ok_body[0].targets[0].slice, defs=ldefs)).strip("()")
            if idx == "-1":
                rep_ok = True
            elif not _re.fullmatch(r"-?\d+", idx):
                raise AnalysisError("R01.5", f.where(ok_body[0]), f"cannot read which element of `{acc}` the merged run replaces (`{idx}`)")
        ok = emit_ok and app_ok and rep_ok
        detail = {"on_failure": fb, "on_success": ob}
    ctx.check(ok, "R01.5", f.where(loop), "when two intervals cannot be merged the finished run is emitted and the next node starts a new run; when they can, the merged run replaces the last one", key_of(f, f"fold-branches:{detail}"), **detail)
    # node list: every path element, with its orientation sign (default '>')
    nl = [st for st in walk_own(f.node) if isinstance(st, ast.Expr) and isinstance(st.value, ast.Call) and norm(st.value.func) == f"{src_list}.append"]
    ok_nl = len(nl) == 1 and isinstance(nl[0].value.args[0], ast.List) and len(nl[0].value.args[0].elts) == 2
    ctx.check(ok_nl, "R01.5", f.where(), "every node of the path enters the fold with its own orientation sign", key_of(f, "node-list"))


# ---------------------------------------------------------------------------------------------


def converter_templates(ctx, m, which):
    f, rec, n = which
    st, var, handle, region, out = emit.templates_of(ctx, f, rec, n, m.extras["tags_attr"], "R01.3")
    if not out:
        raise AnalysisError("R01.3", f.where(st), "no path emits a record")
    return f, rec, st, out


def r01_3(ctx, m):
    cig = m.extras["cigar_attr"]
    tags = m.extras["tags_attr"]
    for which in (m.to_stable, m.to_unstable):
        f, rec, st, out = converter_templates(ctx, m, which)
        # the optional fields are read for the output after the reversed CIGAR has been stored among them: a list of the
        # fields that is put together before that store still carries the old CIGAR
        base_ = f"{rec}.{tags}"
        stores_ = [s_ for s_ in walk_stmts(f.node.body) if isinstance(s_, ast.Assign) and isinstance(s_.targets[0], ast.Subscript) and norm(s_.targets[0].value) == base_ and "cg" in norm(s_.targets[0].slice)]
        for s_ in stores_:
            for x_ in walk_own(f.node):
                it_ = x_.iter if isinstance(x_, (ast.For, ast.comprehension)) else None
                if it_ is not None and norm(it_) in (base_, base_ + ".items()", base_ + ".keys()", base_ + ".values()") and f.before(x_ if isinstance(x_, ast.For) else it_, s_):
                    ctx.violated("R01.3", f.where(it_), f"the optional fields are collected (`{norm(it_)[:40]}`) before `{norm(s_)[:50]}` puts the reversed CIGAR among them: when the strand flips, the record is written with the CIGAR in its old direction (visible for every CIGAR that is not a palindrome)", key_of(f, "tags-read-before-cigar-store"))
                    break
        bad = None
        n = 0
        n_flip = 0
        for p, parts in out:
            n += 1
            cols = tmpl.columns([x for x in parts if x[0] != "rep"])
            c5 = cols[4] if len(cols) > 4 else []
            lit_plus = len(c5) == 1 and c5[0] == ("lit", "+")
            hole_strand = len(c5) == 1 and c5[0][0] == "hole" and norm(c5[0][1]) == f"{rec}.strand"
            if not (lit_plus or hole_strand):
                bad = (p, f"strand column is `{tmpl.show(c5)}`")
                break
            in_minus = None
            set_minus = False
            has_cg = None
            rev = False
            consts = {}
            flags = {}  # boolean temporaries bound on this path to a test (`reverse = rec.strand == "-"`): read as that test
            import copy as _copy

            class _Flags(ast.NodeTransformer):
                def visit_Name(self, n_):
                    return _copy.deepcopy(flags[n_.id]) if isinstance(n_.ctx, ast.Load) and n_.id in flags else n_

            for e in p.events:
                if e.kind == "stmt" and isinstance(e.node, ast.Assign) and isinstance(e.node.targets[0], ast.Name):
                    if isinstance(e.node.value, ast.Constant) and isinstance(e.node.value.value, bool):
                        consts[e.node.targets[0].id] = e.node.value.value
                    else:
                        consts.pop(e.node.targets[0].id, None)
                    if isinstance(e.node.value, (ast.Compare, ast.BoolOp)) or (isinstance(e.node.value, ast.UnaryOp) and isinstance(e.node.value.op, ast.Not)):
                        flags[e.node.targets[0].id] = _Flags().visit(_copy.deepcopy(e.node.value))
                    else:
                        flags.pop(e.node.targets[0].id, None)
                if e.kind == "test" and flags and any(isinstance(x, ast.Name) and x.id in flags for x in ast.walk(e.node)):
                    e = type(e)(kind="test", node=ast.fix_missing_locations(_Flags().visit(_copy.deepcopy(e.node))), pol=e.pol) if hasattr(e, "_replace") is False and False else _retest(e, ast.fix_missing_locations(_Flags().visit(_copy.deepcopy(e.node))))
                if e.kind == "test":

                    def known(sub):
                        t, tp = canon_test(sub, True)
                        if isinstance(sub, ast.Name) and sub.id in consts:
                            return consts[sub.id]
                        if t == f"{rec}.strand == '-'" and in_minus is not None and not set_minus:
                            return in_minus == tp
                        return None

                    for sub, pol in implied(e.node, e.pol, known):
                        t, tp = canon_test(sub, pol)
                        if t == f"{rec}.strand == '-'" and not set_minus:
                            in_minus = tp
                        if t == f"{rec}.strand == '+'" and not set_minus:
                            in_minus = not tp
                        if t == f"'cg:Z:' in {rec}.{tags}":
                            has_cg = tp
                        if t == f"{rec}.{cig}":
                            has_cg = tp
                elif e.kind == "stmt":
                    s = e.node
                    if isinstance(s, ast.Assign) and norm(s.targets[0]) == f"{rec}.strand":
                        if const_value(s.value) == "-":
                            set_minus = True
                        else:
                            bad = (p, f"strand rewritten to `{norm(s.value)}`")
                    if isinstance(s, ast.Assign) and norm(s.targets[0]) == f"{rec}.{tags}['cg:Z:']":
                        src = s.value
                        if isinstance(src, ast.Name):
                            d = [x.node.value for x in p.events if x.kind == "stmt" and isinstance(x.node, ast.Assign) and norm(x.node.targets[0]) == src.id]
                            src = d[-1] if d else src
                        if isinstance(src, ast.Call) and src.args and (norm(src.func).endswith("reverse_cigar") or (lambda cal: cal is not None and emit.is_cigar_reverser(cal))(ctx.repo.resolve_call(f, src))) and norm(src.args[0]) in (f"{rec}.{cig}", f"{rec}.{tags}['cg:Z:']", f"{rec}.{tags}.pop('cg:Z:')"):
                            rev = True
                        else:
                            bad = (p, f"the CIGAR field is overwritten with `{norm(s.value)}`")
            if bad:
                break
            # does the emitted strand differ from the input strand?
            if lit_plus:
                flips = in_minus  # None = the path never looked at the strand
                if flips is None:
                    if rev:
                        bad = (p, "CIGAR reversed on a path that never examined the input strand")
                        break
                    # '+' emitted without looking: flips iff input was '-': undecided -> must have been decided
                    bad = (p, "the strand column is forced to '+' on a path that does not examine the input strand (a '-' record would flip without its CIGAR being reversed)")
                    break
            else:
                flips = set_minus  # inputs are '+'-strand walks; the converter flips by assigning '-'
            if flips:
                n_flip += 1
            if rev and not flips:
                bad = (p, "CIGAR reversed although the strand column does not flip")
                break
            if flips and not rev and has_cg is not False:
                bad = (p, "strand column flips but the CIGAR is not reversed")
                break
        ctx.check(bad is None, "R01.3", f.where(st), "on every path the cg field is replaced by reverse_cigar(parsed CIGAR) exactly when the emitted strand differs from the input strand (and the record has a CIGAR)", key_of(f, f"cigar-strand:{bad[1] if bad else ''}"), paths=n, flipping_paths=n_flip, **({"path": bad[0].show(), "why": bad[1]} if bad else {}))
        if bad is None:
            ctx.require_count("R01.3", n_flip, 1, f.where(st), "paths on which the strand flips")


class _TestEv:
    """a test event whose expression has been rewritten (flag temporaries expanded)"""

    def __init__(self, node, pol):
        self.kind, self.node, self.pol = "test", node, pol


def _retest(e, node):
    return _TestEv(node, e.pol)


def implied(t, pol, known):
    """Atomic facts implied by `t` having outcome `pol`, given `known(sub) -> True/False/None`."""
    if isinstance(t, ast.UnaryOp) and isinstance(t.op, ast.Not):
        return implied(t.operand, not pol, known)
    if isinstance(t, ast.BoolOp):
        is_and = isinstance(t.op, ast.And)
        if is_and == pol:
            # all conjuncts True / all disjuncts False
            out = []
            for v in t.values:
                out += implied(v, pol, known)
            return out
        # a False conjunction (or True disjunction): if all but one operand are known to be the neutral value,
        # the remaining one carries the outcome
        unknown = [v for v in t.values if known(v) is None]
        rest_neutral = all(known(v) == is_and for v in t.values if known(v) is not None)
        if len(unknown) == 1 and rest_neutral:
            return implied(unknown[0], pol, known)
        return []
    return [(t, pol)]


def split_conj(t, pol):
    if isinstance(t, ast.BoolOp) and isinstance(t.op, ast.And) and pol:
        out = []
        for v in t.values:
            out += split_conj(v, True)
        return out
    if isinstance(t, ast.BoolOp) and isinstance(t.op, ast.Or) and not pol:
        out = []
        for v in t.values:
            out += split_conj(v, False)
        return out
    return [(t, pol)]


# ---------------------------------------------------------------------------------------------
# affine forms
# ---------------------------------------------------------------------------------------------


def rec_renamer(rec, schema):
    short = {6: "PL", 7: "PS", 8: "PE"}

    def rn(text):
        for attr, col in schema.items():
            if text == f"{rec}.{attr}" and col in short:
                return short[col]
        return text

    return rn


def path_forms(p, rec, schema, parts, havoc_loops=True):
    """Affine forms of columns 7, 8, 9 at the emission on path p."""
    ev = AffEval(rename=rec_renamer(rec, schema))
    for e in p.events:
        if e.kind == "stmt":
            ev.assign(e.node)
        elif e.kind == "loop":
            written = set()
            for st in ast.walk(e.node):
                if isinstance(st, ast.Assign):
                    for t in st.targets:
                        written |= {x.id for x in ast.walk(t) if isinstance(x, ast.Name)}
                elif isinstance(st, ast.AugAssign) and isinstance(st.target, ast.Name):
                    written.add(st.target.id)
                elif isinstance(st, ast.For):
                    written |= {x.id for x in ast.walk(st.target) if isinstance(x, ast.Name)}
            ev.havoc(written, "loop")
    cols = tmpl.columns([x for x in parts if x[0] != "rep"])
    out = {}
    for i in (6, 7, 8):
        c = cols[i] if i < len(cols) else []
        if len(c) == 1 and c[0][0] == "hole":
            out[i + 1] = ev.of(c[0][1])
        else:
            out[i + 1] = None
    return out, ev, cols


def r01_46_stable(ctx, m):
    f, rec, st, out = converter_templates(ctx, m, m.to_stable)
    schema = m.schema
    bad = None
    kinds = set()
    for p, parts in out:
        forms, ev, cols = path_forms(p, rec, schema, parts)
        # branch classification
        single = None
        reverse = None
        for e in p.events:
            if e.kind == "test":
                t, tp = canon_test(e.node, e.pol)
                a_len = a_ref = None
                for sub in ast.walk(e.node):
                    if isinstance(sub, ast.Compare):
                        st_, _ = canon_test(sub, True)
                        if st_.startswith("len(") and st_.endswith("== 1"):
                            a_len = st_
                        if ".contig_id in " in st_:
                            a_ref = st_
                if a_len and a_ref:
                    from ..core import bool_table

                    tb = bool_table(e.node, [a_len, a_ref])
                    if tb is not None:
                        conj = {k: (k[0] and k[1]) for k in tb}
                        if tb == conj:
                            single = e.pol
                        elif tb == {k: not v for k, v in conj.items()}:
                            single = not e.pol
                if t.endswith("[1] == '<'"):
                    reverse = tp
                if t.endswith("[1] == '>'"):
                    reverse = not tp
        if single is None:
            bad = (p, "cannot classify the path (single reference interval or not)")
            break
        S = None
        for f7 in forms.values():
            if f7 is not None:
                for s in f7.t:
                    if s.endswith(".start"):
                        S = s
        if single:
            if reverse is None:
                bad = (p, "single reference interval: orientation not examined")
                break
            kinds.add("single-rev" if reverse else "single-fwd")
            if S is None:
                bad = (p, "single reference interval: emitted offsets do not depend on the interval's start")
                break
            if reverse:
                want8 = make({S: 1, "PL": 1, "PE": -1})
                want9 = make({S: 1, "PL": 1, "PS": -1})
            else:
                want8 = make({S: 1, "PS": 1})
                want9 = make({S: 1, "PE": 1})
            if forms[8] != want8 or forms[9] != want9:
                bad = (p, f"{'reverse' if reverse else 'forward'} single interval: emits start = {forms[8]}, end = {forms[9]}; the same bases are start = {want8}, end = {want9}")
                break
            # R01.4: path length = contig_len[<emitted contig name>] and the name is the interval's contig
            c6 = cols[5][0][1] if len(cols[5]) == 1 and cols[5][0][0] == "hole" else None
            f7 = forms[7]
            name_src = None
            if isinstance(c6, ast.Name):
                d = [e.node.value for e in p.events if e.kind == "stmt" and isinstance(e.node, ast.Assign) and norm(e.node.targets[0]) == c6.id]
                name_src = norm(d[-1]) if d else None
            len_ok = f7 is not None and len(f7.t) == 1 and f7.c == 0 and isinstance(c6, ast.Name) and list(f7.t) == [f"contig_len[{c6.id}]"] or (f7 is not None and name_src and list(f7.t) == [f"contig_len[{name_src}]"])
            if not len_ok or not (name_src and name_src.endswith(".contig_id") and S and name_src[: -len(".contig_id")] == S[: -len(".start")]):
                bad = (p, f"single interval: path length column is {f7}, path column comes from `{name_src}`; expected contig_len[name of that interval's contig]")
                break
        else:
            kinds.add("multi")
            want7, want8, want9 = make({"PL": 1}), make({"PS": 1}), make({"PE": 1})
            if forms[7] != want7 or forms[8] != want8 or forms[9] != want9:
                bad = (p, f"interval path: emits length/start/end = {forms[7]} / {forms[8]} / {forms[9]}; the node set is unchanged, so they must be the parsed {want7} / {want8} / {want9}")
                break
    ctx.check(bad is None, "R01.6", f.where(st), "unstable->stable: on every branch the emitted path length / start / end, reduced to affine normal form, designate the same bases (forward: S+ps..S+pe; reverse: S+L-pe..S+L-ps; interval path: unchanged)", key_of(f, f"affine-stable:{bad[1] if bad else ''}"), branches=sorted(kinds), **({"path": bad[0].show(20), "why": bad[1]} if bad else {}))
    if bad is None:
        ctx.require_count("R01.6", len(kinds), 3, f.where(st), "branches (forward single, reverse single, interval path)")
    # the collapse condition: exactly one run left and its contig is a rank-0 contig
    conds = [e.node for p, _ in out for e in p.events if e.kind == "test" and "len(" in norm(e.node) and " in " in norm(e.node)]
    if conds:
        t = norm(conds[0])
        ref_param = f.params[2] if len(f.params) > 2 else "ref_contig"
        atoms = []
        for sub in ast.walk(conds[0]):
            if isinstance(sub, ast.Compare):
                st_, _ = canon_test(sub, True)
                atoms.append(st_)
        ok = any(a.startswith("len(") and a.endswith("== 1") for a in atoms) and any(a.endswith(f".contig_id in {ref_param}") for a in atoms) and len(atoms) == 2 and kinds >= {"single-fwd", "single-rev", "multi"}
        ctx.check(ok, "R01.4", f.where(conds[0]), "the path collapses to a bare contig name only for a single run on a rank-0 contig", key_of(f, f"collapse-cond:{sorted(atoms)}"), condition=t)


def r01_46_unstable(ctx, m):
    f, rec, st, out = converter_templates(ctx, m, m.to_unstable)
    schema = m.schema
    bad = None
    kinds = set()
    # names of the loop-carried values
    for p, parts in out:
        forms, ev, cols = path_forms(p, rec, schema, parts)
        minus = None
        split = None
        flagdefs = {}
        for e in p.events:
            if e.kind == "stmt" and isinstance(e.node, ast.Assign) and len(e.node.targets) == 1 and isinstance(e.node.targets[0], ast.Name) and isinstance(e.node.value, ast.Compare):
                flagdefs[e.node.targets[0].id] = e.node.value  # `reverse = rec.strand == "-"`
            if e.kind == "test":
                node_, pol_ = e.node, e.pol
                while isinstance(node_, ast.UnaryOp) and isinstance(node_.op, ast.Not):
                    node_, pol_ = node_.operand, not pol_
                if isinstance(node_, ast.Name) and node_.id in flagdefs:
                    node_ = flagdefs[node_.id]
                t, tp = canon_test(node_, pol_)
                if t == f"{rec}.strand == '-'":
                    minus = tp
                elif t == f"{rec}.strand == '+'":
                    minus = not tp
                elif isinstance(node_, ast.Name):
                    split = tp if t.isidentifier() else split
        if minus is None or split is None:
            raise AnalysisError("R01.6", f.where(st), "cannot classify a path through the converter (input strand / interval-path flag not examined in a form this rule reads)")
        kinds.add(("minus" if minus else "plus") + ("-split" if split else "-bare"))
        # `if start is None: start = -1` after the segment loop: the "no segment overlapped" path of a None-initialised
        # running value (the loop never set it) — not one of the branches whose arithmetic this rule compares
        none_reset = False
        evs_ = list(p.events)
        for i_, e in enumerate(evs_[:-1]):
            if e.kind == "test" and canon_test(e.node, e.pol)[1] is True and canon_test(e.node, e.pol)[0].endswith(" is None"):
                nm_ = canon_test(e.node, e.pol)[0][: -len(" is None")]
                nx = evs_[i_ + 1]
                in_loop = any(isinstance(l_, ast.For) and any(isinstance(x, ast.Assign) and norm(x.targets[0]) == nm_ for x in ast.walk(l_)) for l_ in ast.walk(f.node))
                if nm_.isidentifier() and in_loop and nx.kind == "stmt" and isinstance(nx.node, ast.Assign) and norm(nx.node.targets[0]) == nm_ and isinstance(nx.node.value, (ast.Constant, ast.UnaryOp)):
                    none_reset = True
        if none_reset:
            continue
        # loop-carried symbols
        syms = set()
        for fm in forms.values():
            if fm is not None:
                syms |= set(fm.t)
        NS = next((s for s in syms if s.endswith("@loop") and "start" in s), None)
        NT = next((s for s in syms if s.endswith("@loop") and "total" in s), None)
        if split:
            if minus:
                want = (make({"PL": 1}), make({"PL": 1, "PE": -1}), make({"PL": 1, "PS": -1}))
            else:
                want = (make({"PL": 1}), make({"PS": 1}), make({"PE": 1}))
        else:
            if NT is None:
                bad = (p, "bare contig: path length does not come from the accumulated segment lengths")
                break
            if NS is None:
                bad = (p, "bare contig: path start does not come from the offset inside the first segment")
                break
            if minus:
                want = (make({NT: 1}), make({NT: 1, NS: -1, "PE": -1, "PS": 1}), make({NT: 1, NS: -1}))
            else:
                want = (make({NT: 1}), make({NS: 1}), make({NS: 1, "PE": 1, "PS": -1}))
        got = (forms[7], forms[8], forms[9])
        if got != want:
            bad = (p, f"{'-' if minus else '+'} strand, {'interval path' if split else 'bare contig'}: emits length/start/end = {got[0]} / {got[1]} / {got[2]}; the same bases are {want[0]} / {want[1]} / {want[2]}")
            break
    ctx.check(bad is None, "R01.6", f.where(st), "stable->unstable: on every branch the emitted path length / start / end, reduced to affine normal form, designate the same bases (interval path: unchanged on '+', mirrored L-pe..L-ps on '-'; bare contig: offset inside the first segment, mirrored on '-')", key_of(f, f"affine-unstable:{bad[1] if bad else ''}"), branches=sorted(kinds), **({"path": bad[0].show(20), "why": bad[1]} if bad else {}))
    if bad is None:
        ctx.require_count("R01.6", len(kinds), 4, f.where(st), "branches (strand x interval/bare)")
    # inside the segment loop: first overlapping segment fixes the start; every kept segment adds its length
    site = cc.find_overlap_site(ctx, f, m.search, "R01.4")
    total = None
    badl = None
    n_first = 0
    for p in site.paths:
        kept = any(e.kind == "stmt" and e.node is site.append for e in p.events)
        ev = AffEval(rename=lambda t: t)
        adds = []
        first_set = None
        for e in p.events:
            if e.kind == "stmt":
                before = dict(ev.env)
                w = ev.assign(e.node)
                for nm in w:
                    if isinstance(e.node, ast.AugAssign):
                        adds.append((nm, ev.env[nm] - before.get(nm, Aff.sym(nm))))
                    elif isinstance(e.node, ast.Assign) and "start" in nm:
                        first_set = (nm, e.node.value)
        len_adds = [(nm, d) for nm, d in adds if "total" in nm or "len" in nm]
        if kept:
            # exactly one accumulation of (e - s)
            ok = len(len_adds) == 1
            if ok:
                d = len_adds[0][1]
                a = {site.atom_of(ast.parse(k, mode="eval").body) if not k.isidentifier() else site.atom_of(ast.Name(id=k, ctx=ast.Load())): v for k, v in d.t.items()}
                ok = d.c == 0 and (a == {"e": 1, "s": -1} or set(a) == {"e"} and False)
                if not ok and d.c == 0:
                    # e - s may have been folded as (SO + LN) - SO = LN
                    ok = list(d.t.items()) == [(f"{site.iv}.tags['LN'][1]", 1)]
            if not ok:
                badl = (p, f"a kept segment changes the accumulated path length by {[str(d) for _, d in len_adds]} instead of its length e - s")
                break
        else:
            if len_adds:
                badl = (p, "the accumulated path length changes for a segment that is not kept")
                break
        if first_set is not None:
            n_first += 1
    ctx.check(badl is None, "R01.4", f.where(site.loop), "bare contig: the path length grows by e - s for exactly the segments that are appended to the path", key_of(f, f"length-accumulation:{badl[1] if badl else ''}"), **({"path": badl[0].show(), "why": badl[1]} if badl else {}))
    # orientation of emission: the kept segments are reversed exactly under orient == '<'
    seglist = norm(site.append.value.func.value)
    sites = []  # (node, kind) of every reversal of the segment list
    for n in walk_own(f.node):
        if isinstance(n, ast.Call) and isinstance(n.func, ast.Name) and n.func.id == "reversed" and n.args and norm(n.args[0]) == seglist:
            sites.append((n, "reversed()"))
        if isinstance(n, ast.Call) and isinstance(n.func, ast.Attribute) and n.func.attr == "reverse" and norm(n.func.value) == seglist:
            sites.append((n, ".reverse()"))
        if isinstance(n, ast.Subscript) and norm(n.value) == seglist and isinstance(n.slice, ast.Slice) and n.slice.step is not None and const_value(n.slice.step) == -1 and n.slice.lower is None and n.slice.upper is None:
            sites.append((n, "[::-1]"))
    if not sites and any(isinstance(l, ast.For) and isinstance(l.iter, ast.Call) and norm(l.iter.func) == "range" and len(l.iter.args) == 3 and isinstance(const_value(l.iter.args[2], None), int) and const_value(l.iter.args[2]) < 0 for l in walk_own(f.node)):
        raise AnalysisError("R01.4", f.where(), "the segment list is walked by a descending index loop: the orientation of the emission is not read from it")
    if not sites:
        any_rev = [n for n in walk_own(f.node) if (isinstance(n, ast.Call) and isinstance(n.func, ast.Name) and n.func.id == "reversed") or (isinstance(n, ast.Call) and isinstance(n.func, ast.Attribute) and n.func.attr == "reverse") or (isinstance(n, ast.Subscript) and isinstance(n.slice, ast.Slice) and n.slice.step is not None and const_value(n.slice.step, None) == -1)]
        if any_rev:
            raise AnalysisError("R01.4", f.where(any_rev[0]), f"something is reversed (`{norm(any_rev[0])[:50]}`) but not the list `{seglist}` the kept segments are appended to: the orientation of the emission is not read from it")
        ctx.violated("R01.4", f.where(), "the segments found for an interval are never reversed: a reverse-orientation interval is emitted in forward order", key_of(f, "reversed-emission:none"))
    else:
        verdict = None
        for n, kind in sites:
            stmt = _stmt_of(f, n)
            loopvars = {nm for lp in walk_own(f.node) if isinstance(lp, ast.For) and stmt is not None and any(x is stmt for x in ast.walk(lp)) for nm in names_in(lp.target)}

            def orient_cmp(t):
                while isinstance(t, ast.UnaryOp) and isinstance(t.op, ast.Not):
                    t = t.operand
                return isinstance(t, ast.Compare) and len(t.ops) == 1 and isinstance(t.ops[0], (ast.Eq, ast.NotEq)) and const_value(t.comparators[0]) in ("<", ">") and isinstance(t.left, ast.Name) and t.left.id not in loopvars

            gs = [(canon_test(t, pol)) for t, pol in guards_of(f.node, stmt) if orient_cmp(t)] if stmt is not None else []
            # a conditional expression around the reversal: (reversed(L) if orient == '<' else L)
            for ife in walk_own(f.node):
                if isinstance(ife, ast.IfExp):
                    if any(x is n for x in ast.walk(ife.body)) and orient_cmp(ife.test):
                        gs.append(canon_test(ife.test, True))
                    elif any(x is n for x in ast.walk(ife.orelse)) and orient_cmp(ife.test):
                        gs.append(canon_test(ife.test, False))
            under_rev = any((t.endswith("== '<'") and pol) or (t.endswith("== '>'") and not pol) for t, pol in gs)
            under_fwd = any((t.endswith("== '>'") and pol) or (t.endswith("== '<'") and not pol) for t, pol in gs)
            if under_fwd:
                verdict = (False, f"{kind} of the segment list happens for forward ('>') intervals")
                break
            if not under_rev:
                orient_tests = [t for t, _ in gs if "'<'" in t or "'>'" in t]
                if not gs or not orient_tests:
                    verdict = (False, f"{kind} of the segment list is not conditional on the interval's orientation")
                    break
                raise AnalysisError("R01.4", f.where(n), f"cannot read the orientation guard of the reversal: {gs}")
            verdict = verdict or (True, kind)
        ctx.check(verdict[0], "R01.4", f.where(), "segments of a reverse-orientation interval are emitted in reversed order, forward ones in SO order", key_of(f, f"reversed-emission:{verdict[1]}"), how=verdict[1])
    ctx.run(r01_10, f, site)


def r01_10(ctx, f, site):
    """The sign written in front of a segment id is the orientation of the interval the segment was found for: the
    orientation variable is bound once per interval (inside the interval loop), so a sign + id concatenation placed after
    that loop applies the last interval's orientation to the segments of every interval."""
    iv_loop = None
    for lp in walk_own(f.node):
        if isinstance(lp, (ast.For, ast.While)) and any(x is site.loop for x in ast.walk(lp)) and lp is not site.loop:
            if iv_loop is None or any(x is iv_loop for x in ast.walk(lp)):
                iv_loop = lp
    if iv_loop is None:
        raise AnalysisError("R01.10", f.where(site.loop), "cannot find the loop over the intervals of the stable path")
    inside = {id(x) for x in ast.walk(iv_loop)}
    stored_in = {x.id for x in ast.walk(iv_loop) if isinstance(x, ast.Name) and isinstance(x.ctx, ast.Store)}
    orient = {c.left.id for c in walk_own(f.node) if isinstance(c, ast.Compare) and isinstance(c.left, ast.Name) and len(c.ops) == 1 and const_value(c.comparators[0]) in ("<", ">")} & stored_in
    orient |= {s_.targets[0].id for s_ in walk_stmts(iv_loop.body) if isinstance(s_, ast.Assign) and isinstance(s_.targets[0], ast.Name) and const_value(s_.value) in ("<", ">")}
    if not orient:
        raise AnalysisError("R01.10", f.where(iv_loop), "cannot identify the variable holding the orientation of the current interval")
    parents = {}
    for x in ast.walk(f.node):
        for c in ast.iter_child_nodes(x):
            parents[id(c)] = x
    n_in = 0
    late = None
    for x in walk_own(f.node):
        if isinstance(x, ast.Name) and isinstance(x.ctx, ast.Load) and x.id in orient:
            par = parents.get(id(x))
            glue = isinstance(par, ast.BinOp) and isinstance(par.op, (ast.Add, ast.Mod)) or isinstance(par, (ast.FormattedValue, ast.JoinedStr)) or (isinstance(par, ast.Tuple) and isinstance(parents.get(id(par)), ast.BinOp))
            if not glue:
                continue
            if id(x) in inside:
                n_in += 1
            elif f.before(iv_loop, x):
                late = x
    ctx.check(late is None, "R01.10", f.where(late if late is not None else iv_loop), "every sign written in front of a segment id is the orientation of the interval that segment was found for (the sign and the id are joined inside the per-interval loop)", key_of(f, f"sign-after-loop:{norm(parents.get(id(late)))[:60] if late is not None else ''}"), **({"late_use": norm(parents.get(id(late)))[:80], "why": f"`{late.id}` is bound once per interval; after the loop it holds the orientation of the last interval only, so the segments of every interval of a mixed path (`>chr1:0-10<hapA:5-9`) are written with that one sign"} if late is not None else {"joined_in_loop": n_in}))
    if late is None and n_in == 0:
        raise AnalysisError("R01.10", f.where(iv_loop), "cannot find where the orientation sign is joined with the segment ids")
    # every kept segment is written: inside the loop that walks the kept segments the join is not skipped under a test of the segment
    seglist = norm(site.append.value.func.value)
    for lp in walk_own(f.node):
        if isinstance(lp, ast.For) and lp is not site.loop and seglist in {norm(x) for x in ast.walk(lp.iter)} and isinstance(lp.target, ast.Name):
            tv = lp.target.id
            for iff in [y for b in lp.body for y in ast.walk(b) if isinstance(y, ast.If)]:
                if tv in {x.id for x in ast.walk(iff.test) if isinstance(x, ast.Name)}:
                    skips = any(isinstance(y, ast.Continue) for b in iff.body for y in ast.walk(b)) or any(isinstance(x, ast.Name) and x.id in orient for b in iff.body + iff.orelse for x in ast.walk(b))
                    if skips:
                        ctx.violated("R01.10", f.where(iff), f"inside the loop that writes the kept segments, `{norm(iff.test)[:50]}` decides per segment whether it is written: a segment the overlap filter kept (a second visit of the same segment in a hairpin `>s3<s3` or a tandem loop `>s3>s3`) is dropped from the path while the path length and offsets still count it", key_of(f, f"kept-segment-not-written:{norm(iff.test)[:40]}"))


def _stmt_of(f, node):
    best = None
    for st in walk_stmts(f.node.body):
        if any(x is node for x in ast.walk(st)):
            if best is None or any(x is st for x in ast.walk(best)):
                best = st
    return best


def r01_8(ctx):
    """view.run's graph tables for --format stable: every node maps to (contig = SN value, start = int(SO),
    end = int(SO) + int(LN)); the reference contigs are those of rank 0; their length is the sum of their segments' LN.
    Decided on the normal form of view.run (helpers inlined), for comprehension and loop spellings alike."""
    import re as _re

    from ..core import normal, resolve_expr

    repo = ctx.repo
    view = repo.module("gaftools.cli.view", "R01.8")
    cands = []
    for f0 in view.funcs.values():
        f = normal(repo, f0)
        ctors = [c for c in walk_own(f.node) if isinstance(c, ast.Call) and norm(c.func) == "StableNode"]
        if ctors and not repo.callers_of(f0):
            cands.append((f, ctors))
    if not cands:
        for f0 in view.funcs.values():
            f = normal(repo, f0)
            ctors = [c for c in walk_own(f.node) if isinstance(c, ast.Call) and norm(c.func) == "StableNode"]
            if ctors:
                cands.append((f, ctors))
    if not cands:
        raise AnalysisError("R01.8", view.relpath, "view does not build the node -> stable interval map")
    run, ctors = max(cands, key=lambda x: len(list(ast.walk(x[0].node))))
    ctor = ctors[0]
    ctx.analysed_func(run)
    args = {k.arg: k.value for k in ctor.keywords}
    cparams = ["contig_id", "start", "end"]
    for i, a in enumerate(ctor.args):
        args[cparams[i]] = a
    if set(args) != set(cparams):
        raise AnalysisError("R01.8", run.where(ctor), "StableNode is not built from (contig_id, start, end)")
    # the key variable and the iteration: {k: StableNode(..) for k in G.nodes}  or  for k in G.nodes: M[k] = StableNode(..)
    kv = it = None
    filtered = False
    for n in walk_own(run.node):
        if isinstance(n, ast.DictComp) and any(x is ctor for x in ast.walk(n.value)) and len(n.generators) == 1:
            kv, it, filtered = norm(n.key), n.generators[0].iter, bool(n.generators[0].ifs) or norm(n.generators[0].target) != norm(n.key)
        if isinstance(n, ast.For) and any(isinstance(st, ast.Assign) and isinstance(st.targets[0], ast.Subscript) and any(x is ctor for x in ast.walk(st.value)) for st in n.body):
            st = next(st for st in n.body if isinstance(st, ast.Assign) and isinstance(st.targets[0], ast.Subscript) and any(x is ctor for x in ast.walk(st.value)))
            kv, it = norm(st.targets[0].slice), n.iter
            filtered = norm(n.target) != kv or any(isinstance(x, (ast.If, ast.Continue, ast.Break)) for x in ast.walk(n))
    if kv is None:
        raise AnalysisError("R01.8", run.where(ctor), "node map is neither a dict comprehension nor a loop over the graph's nodes")
    from ..core import local_defs

    # temporaries are looked through, objects built by a constructor (the graph) keep their name
    ld = {k: v for k, v in local_defs(run.node).items() if not any(isinstance(d, ast.Call) and isinstance(d.func, ast.Name) and d.func.id[:1].isupper() for d in v if d is not None)}
    _resolve = resolve_expr

    def resolve_expr(node_, e, _ld=ld):  # noqa: F811
        return _resolve(node_, e, defs=_ld) if node_ is run.node else _resolve(node_, e)

    contig_txt = resolve_expr(run.node, args["contig_id"])
    mm = _re.fullmatch(r"(\w+)(?:\.nodes)?\[" + _re.escape(kv) + r"\]\.tags\['SN'\]\[1\]", contig_txt)
    if not mm:
        raise AnalysisError("R01.8", run.where(ctor), f"contig of a node is `{contig_txt}`: not the recognised <graph>[id].tags['SN'][1] form")
    g_ = mm.group(1)
    node_txts = (f"{g_}[{kv}]", f"{g_}.nodes[{kv}]")
    sos = {f"int({n_}.tags['SO'][1])" for n_ in node_txts}
    lns = {f"int({n_}.tags['LN'][1])" for n_ in node_txts}
    start_txt, end_txt = resolve_expr(run.node, args["start"]), resolve_expr(run.node, args["end"])
    ok = not filtered and norm(it) in (f"{g_}.nodes", f"{g_}.nodes.keys()", f"list({g_}.nodes)", f"list({g_}.nodes.keys())", g_)
    ok = ok and start_txt in sos and any(end_txt in (f"{a} + {b}", f"{b} + {a}") for a in sos for b in lns)
    ctx.check(ok, "R01.8", run.where(ctor), "every node of the graph maps to its stable interval: contig = SN value, start = int(SO), end = int(SO) + int(LN), keyed by the node id, no node filtered", key_of(run, f"node-map:{contig_txt}:{start_txt}:{end_txt}:{norm(it)}:{filtered}"), contig=contig_txt, start=start_txt, end=end_txt)
    # reference contigs: rank 0
    refvar = None
    seen_refs = []
    for st in walk_own(run.node):
        if isinstance(st, ast.Assign) and isinstance(st.value, ast.ListComp) and ".contigs" in norm(st.value) and len(st.value.generators) == 1:
            gen = st.value.generators[0]
            seen_refs.append(norm(st.value))
            if len(gen.ifs) != 1:
                continue
            cond = norm(gen.ifs[0]).replace(" ", "")
            if isinstance(gen.target, ast.Tuple) and len(gen.target.elts) == 2 and norm(gen.iter) == f"{g_}.contigs.items()":
                cv, rv = [norm(e) for e in gen.target.elts]
                good = cond in (f"{rv}==0", f"0=={rv}") and norm(st.value.elt) == cv
            else:
                cv = norm(gen.target)
                good = cond in (f"{g_}.contigs[{cv}]==0", f"0=={g_}.contigs[{cv}]") and norm(st.value.elt) == cv and norm(gen.iter) in (f"{g_}.contigs", f"{g_}.contigs.keys()", f"list({g_}.contigs)")
            if good:
                refvar = norm(st.targets[0])
    if not seen_refs:
        raise AnalysisError("R01.8", run.where(), "cannot find the selection of the reference contigs")
    ctx.check(refvar is not None, "R01.8", run.where(), "the reference contigs are exactly the contigs whose rank (SR) is 0", key_of(run, f"ref-contigs:{seen_refs}"))
    # contig lengths: get_contig_length(contig, throw_warning=False) for each reference contig; = sum of LN over the path
    okl = False
    seen_len = []
    for n in walk_own(run.node):
        c = cv = src_it = None
        if isinstance(n, ast.For):
            for st in n.body:
                if isinstance(st, ast.Assign) and isinstance(st.targets[0], ast.Subscript) and isinstance(st.value, ast.Call) and isinstance(st.value.func, ast.Attribute) and st.value.func.attr == "get_contig_length":
                    c, cv, src_it, keyv = st.value, norm(n.target), norm(n.iter), norm(st.targets[0].slice)
        if isinstance(n, ast.DictComp) and isinstance(n.value, ast.Call) and isinstance(n.value.func, ast.Attribute) and n.value.func.attr == "get_contig_length" and len(n.generators) == 1 and not n.generators[0].ifs:
            c, cv, src_it, keyv = n.value, norm(n.generators[0].target), norm(n.generators[0].iter), norm(n.key)
        if c is not None:
            seen_len.append(norm(c))
            okl = okl or (refvar is not None and src_it == refvar and keyv == cv and c.args and norm(c.args[0]) == cv and _flag_false(repo, run, c))
    if not seen_len:
        # lengths summed by hand: the one thing decidable is an accumulator that is not reset per contig
        for n in walk_own(run.node):
            if isinstance(n, ast.For) and refvar is not None and norm(n.iter) == refvar:
                for st in n.body:
                    if isinstance(st, ast.Assign) and isinstance(st.targets[0], ast.Subscript) and norm(st.targets[0].slice) == norm(n.target) and isinstance(st.value, ast.Name):
                        acc = st.value.id
                        grows = any(isinstance(x, ast.AugAssign) and norm(x.target) == acc for x in ast.walk(n))
                        reset_inside = any(isinstance(x, ast.Assign) and norm(x.targets[0]) == acc for b in n.body for x in ast.walk(b))
                        if grows and not reset_inside:
                            ctx.violated("R01.8", run.where(st), f"`{acc}` is summed over the segments of every reference contig without being reset per contig: the length stored for the second and later contigs is a running total", key_of(run, f"contig-length-running-total:{acc}"))
                            return
        raise AnalysisError("R01.8", run.where(), "cannot find where the reference contig lengths are computed")
    gcl = repo.func("gaftools.gfa", "GFA.get_contig_length", "R01.8")
    ctx.analysed_func(gcl)
    gcl_n = normal(repo, gcl, keep=lambda callee: callee.name == "get_path")
    # sum of int(LN) over get_path(chrom, throw_warning): a sum() over a comprehension, or an accumulator loop
    oks = False
    src = ""
    for r in walk_own(gcl_n.node):
        if isinstance(r, ast.Return) and r.value is not None:
            t = resolve_expr(gcl_n.node, r.value).replace(" ", "")
            src = src or t
            if _re.fullmatch(r"sum\(\[?\(?int\(self(?:\.nodes)?\[(\w+)\]\.tags\['LN'\]\[1\]\)for\1inself\.get_path\((\w+),(\w+)(?:=\3)?\)\)?\]?\)", t):
                oks = True
    if not oks:
        for lp in walk_own(gcl_n.node):
            if isinstance(lp, ast.For) and "get_path(" in resolve_expr(gcl_n.node, lp.iter) and len(lp.body) == 1 and isinstance(lp.body[0], ast.AugAssign) and isinstance(lp.body[0].op, ast.Add):
                t = norm(lp.body[0].value).replace(" ", "")
                x = norm(lp.target)
                acc = norm(lp.body[0].target)
                if t in (f"int(self.nodes[{x}].tags['LN'][1])", f"int(self[{x}].tags['LN'][1])") and any(isinstance(r, ast.Return) and r.value is not None and norm(r.value) == acc for r in walk_own(gcl_n.node)):
                    oks = True
                    src = "accumulator loop: " + t
    ctx.check(okl and oks, "R01.8", run.where(), "the length of a reference contig (path length of a collapsed record) is the sum of the LN tags of all its segments", key_of(run, f"contig-len:{okl}:{src[:80]}"), expr=src)


def r01_9(ctx, m):
    """Converting one record does not write into the tables shared by all records of a run (the node -> interval map,
    the per-contig segment lists, the contig lengths): in gaftools.conversion the only objects written through a parameter
    are the record being converted (strand flip, cg tag)."""
    from ..core import _MUTATORS
    from .common import record_params

    repo = ctx.repo
    conv = repo.module("gaftools.conversion", "R01.9")
    n = 0
    for f in conv.funcs.values():
        if f.cls is not None and f.name == "__init__":
            continue
        recs = record_params(f, m.schema) | {"self"}
        rec_attrs = set(m.schema) | {m.extras["tags_attr"], m.extras["cigar_attr"]}
        # a helper that is handed the record (it reads the record's tags / cigar / columns) writes the record, not a table
        recs |= {p_ for p_ in f.params if any(isinstance(x, ast.Attribute) and isinstance(x.value, ast.Name) and x.value.id == p_ and x.attr in rec_attrs for x in walk_own(f.node))}
        params = set(f.params)
        # names bound to elements of a parameter (n1 = out_node[-1][0] ... are locals built in this call; `x = nodes[k]` is shared)
        shared = set(params) - recs
        ld = {}
        for st in walk_own(f.node):
            if isinstance(st, ast.Assign) and len(st.targets) == 1 and isinstance(st.targets[0], ast.Name) and isinstance(st.value, ast.Subscript):
                root = st.value
                while isinstance(root, (ast.Subscript, ast.Attribute)):
                    root = root.value
                if isinstance(root, ast.Name) and root.id in shared:
                    ld[st.targets[0].id] = root.id
        for x in walk_own(f.node):
            base = None
            what = None
            if isinstance(x, (ast.Attribute, ast.Subscript)) and isinstance(x.ctx, (ast.Store, ast.Del)):
                base, what = x.value, norm(x)
            elif isinstance(x, ast.Call) and isinstance(x.func, ast.Attribute) and x.func.attr in _MUTATORS:
                base, what = x.func.value, norm(x)[:60]
            if base is None:
                continue
            while isinstance(base, (ast.Subscript, ast.Attribute)):
                base = base.value
            if not isinstance(base, ast.Name):
                continue
            n += 1
            root = base.id if base.id in shared else ld.get(base.id)
            if root is not None and base.id not in recs:
                ctx.violated("R01.9", f.where(x), f"`{what}` writes into an object reached through the parameter `{root}`: the graph tables are shared by every record of the run, so a later record sees the change", key_of(f, f"shared-write:{what}"))
    ctx.require_count("R01.9", n, 3, conv.relpath, "writes through names in gaftools.conversion")
    if not any(i.rule == "R01.9" and i.verdict == "violated" for i in ctx.instances):
        ctx.holds("R01.9", conv.relpath, f"none of the {n} writes in gaftools.conversion goes through a shared table parameter (only the record being converted and locals of the call are written)")


def _flag_false(repo, f, call):
    """the strictness flag (second parameter after the contig) of get_path / get_contig_length is passed False"""
    ba = repo.bound_args(f, call)
    sig = repo.signature_of(f, call)
    if ba is None or sig is None or len(sig[1]) < 2:
        return False
    v = ba.get(sig[1][1])
    return v is not None and const_value(v, "?") is False
