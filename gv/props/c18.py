"""C18 — order_gfa isolates components it cannot order.

R18.1  the running BO counter survives a skip: no failure return hands the caller a value that
       changes (or destroys) the loop-carried counter
R18.2  "not a simple chain" is reported by return, never by exception: no shape-dependent
       assert/raise escapes the per-component function (the caller's loop has no handler)
R18.3  a skipped component leaves no trace: tag stores, file writes and output registrations of a
       chromosome are dominated by the success test
"""

from __future__ import annotations

import ast

from ..core import AnalysisError, const_value, norm, walk_own, walk_stmts, names_in
from . import ordergfa_common as oc
from .common import key_of

META = {
    "explanation": "Static decision of the isolation of un-orderable components in gaftools order_gfa: (R18.1) nullable/neutral-value flow — "
    "for every failure return of the per-component ordering function the value at the position the caller stores into (or adds to) its "
    "loop-carried BO counter must be the incoming counter (or 0 under the additive protocol), so the next chromosome starts where it would "
    "have started without the skipped one; (R18.2) exception escape — every assert/raise of that function whose condition depends on data of "
    "the component must be converted into the skip return, because the caller's chromosome loop has no handler and an escape aborts all "
    "remaining chromosomes; (R18.3) every tag store, file write and output registration in the loop body is inside the success branch. "
    "These hold for every input graph and every position in --chromosome_order because they are properties of all paths.",
    "technique": "static analysis: nullable/neutral value flow across the call, exception-escape set, dominance of effects by the success test",
}


def check(ctx):
    m = oc.build(ctx, "R18")
    ctx.run(r18_1, m)
    ctx.run(r18_2, m)
    ctx.run(r18_3, m)
    ctx.run(r18_4, m)
    from . import c06

    ctx.run(c06.r06_9, m)  # a component that was ordered must not look skipped to the caller
    ctx.run(c06.r06_11, m)  # which components count as chain-shaped
    ctx.run(c06.r06_10, m)  # a chain must be recognised as one whatever its segments are called (else it is skipped)
    ctx.run(c06.r06_5, m)  # tags a skipped component carries from the input play no role
    ctx.not_decided.append("that the degree census recognises exactly the non-chain components (a graph-theoretic statement about biccs/dfs, see C15)")
    # the decomposition itself: the structural rules of biccs (edge-stack discipline, cut criterion, low-link updates) are C15's
    from . import c15 as _c15
    from . import gfa_common as _gc

    _g = _gc.build(ctx, "R15.5")
    ctx.run_shared(_c15.r15_5, _g)
    ctx.run_shared(_c15.r15_6, _g)
    ctx.run_shared(_c15.r15_10, _g)
    ctx.run_shared(_c15.r15_11, _g)
    # mechanisms this property rests on (see shared.py): a change there is reported here as well
    from . import shared as _sh

    ctx.run_shared(_sh.graph_loader)
    ctx.run_shared(_sh.cli_layer, "gaftools.cli.order_gfa")


def r18_1(ctx, m):
    run, dec = m.run, m.dec
    proto = oc.counter_protocol(m)
    if proto is None:
        raise AnalysisError("R18.1", run.where(m.call_stmt), "cannot identify the loop-carried BO counter (an unpack target that is also an argument of the call)")
    kind, pos, counter, param = proto[:4]
    ctx.require_count("R18.1", len(m.fail_returns), 1, dec.where(), "failure (skip) returns of the ordering function")
    # the parameter must not be rebound before a failure return
    rebinds = [st for st in walk_stmts(dec.node.body) if isinstance(st, (ast.Assign, ast.AugAssign)) and any(norm(t) == param for t in (st.targets if isinstance(st, ast.Assign) else [st.target]))]
    neutral = param if kind == "assign" else "0"
    for r in m.fail_returns:
        e = r.value.elts[pos]
        src = norm(e)
        if kind == "assign":
            ok = src == param and not rebinds
            why = "a failure return must hand back the incoming counter unchanged"
        else:
            ok = src == "0"
            why = "under the additive protocol a failure return must report 0 used indices"
        ctx.check(
            ok,
            "R18.1",
            dec.where(r),
            f"skip return carries the neutral value `{neutral}` at the position the caller stores into its running BO counter `{counter}` ({why})",
            key_of(dec, f"fail-return[{pos}]={src}"),
            returned=src,
            protocol=kind,
        )
    # success returns must not be None there either
    for r in m.ok_returns:
        e = r.value.elts[pos]
        ok = not (isinstance(e, ast.Constant) and e.value is None)
        ctx.check(ok, "R18.1", dec.where(r), "success return carries a counter value", key_of(dec, f"ok-return[{pos}]={norm(e)}"))
    # values a failure return reports as None are used by the caller only where the component was ordered
    loop_body = None
    for l_ in walk_own(run.node):
        if isinstance(l_, ast.For) and any(x is m.call_stmt for x in ast.walk(l_)):
            loop_body = l_
    if loop_body is not None:
        none_pos = {i for r in m.fail_returns for i, e in enumerate(r.value.elts) if isinstance(e, ast.Constant) and e.value is None}
        in_success = {id(x) for st in m.success_body for x in ast.walk(st)}
        in_test = {id(x) for x in ast.walk(m.success_if.test)}
        for i in sorted(none_pos):
            t = m.targets[i] if i < len(m.targets) else None
            if t is None or not t.isidentifier():
                continue
            for st in walk_stmts(loop_body.body):
                if st is m.success_if or isinstance(st, (ast.If, ast.For, ast.While, ast.With, ast.Try)):
                    continue
                for x in ast.walk(st):
                    if isinstance(x, ast.Name) and x.id == t and isinstance(x.ctx, ast.Load) and id(x) not in in_success and id(x) not in in_test:
                        arith = isinstance(st, ast.AugAssign) or any(isinstance(b, (ast.BinOp, ast.Compare)) and any(y is x for y in ast.walk(b)) for b in ast.walk(st)) or any(isinstance(c_, ast.Call) and norm(c_.func).split(".")[-1] in ("info", "debug", "warning", "len", "range", "int", "sum") and any(y is x for y in ast.walk(c_)) for c_ in ast.walk(st))
                        if arith:
                            ctx.violated("R18.1", run.where(st), f"`{norm(st)[:70]}` uses `{t}` outside the branch that tests whether the component was ordered: for a skipped component the ordering function reports None there, so the statement raises TypeError and the command aborts instead of going on with the remaining chromosomes", key_of(run, f"none-used-outside-success:{t}:{norm(st)[:40]}"))
                            break
    # the counter is not touched in the skip branch of the caller
    touched = [st for st in walk_stmts(m.skip_body) if isinstance(st, (ast.Assign, ast.AugAssign)) and counter in {norm(t) for t in (st.targets if isinstance(st, ast.Assign) else [st.target])}]
    ctx.check(not touched, "R18.1", run.where(m.success_if), "the skip branch of the chromosome loop does not modify the running counter", key_of(run, "skip-branch-touches-counter"))
    if kind == "add":
        st = proto[4]
        # the addition must happen exactly once per iteration on every path (inside or outside the success branch is both fine when failure adds 0)
        ctx.holds("R18.1", run.where(st), f"caller adds the reported count to `{counter}`", nontrivial=False)


def data_dependent(dec, expr, tainted):
    return bool(names_in(expr) & tainted)


def taint_set(dec):
    """Names of the ordering function that (transitively) depend on its graph/component parameters."""
    params = set(dec.params)
    tainted = set(params)
    changed = True
    while changed:
        changed = False
        for st in walk_stmts(dec.node.body):
            tgts = []
            val = None
            if isinstance(st, ast.Assign):
                tgts, val = st.targets, st.value
            elif isinstance(st, ast.AugAssign):
                tgts, val = [st.target], st.value
            elif isinstance(st, ast.For):
                tgts, val = [st.target], st.iter
            for n in ast.walk(st) if val is None else []:
                pass
            if val is not None and (names_in(val) & tainted):
                for t in tgts:
                    for nm in names_in(t):
                        if nm not in tainted:
                            tainted.add(nm)
                            changed = True
            # mutation through method call: x.append(tainted) / x.update(tainted) / x.add_node(tainted)
            if isinstance(st, ast.Expr) and isinstance(st.value, ast.Call) and isinstance(st.value.func, ast.Attribute):
                recv = st.value.func.value
                if isinstance(recv, ast.Name) and recv.id not in tainted:
                    if any(names_in(a) & tainted for a in st.value.args):
                        tainted.add(recv.id)
                        changed = True
        for n in walk_own(dec.node):
            if isinstance(n, ast.comprehension) and (names_in(n.iter) & tainted):
                for nm in names_in(n.target):
                    if nm not in tainted:
                        tainted.add(nm)
                        changed = True
    return tainted


def handled_by(dec, st):
    """If `st` is inside a try whose handler catches AssertionError/Exception/bare and that handler
    ends in a failure return, return the handler."""
    for t in walk_own(dec.node):
        if isinstance(t, ast.Try) and any(x is st for b in t.body for x in ast.walk(b)):
            for h in t.handlers:
                ht = norm(h.type) if h.type is not None else ""
                if ht in ("", "Exception", "BaseException") or "AssertionError" in ht:
                    return h
    return None


def r18_2(ctx, m):
    dec = m.dec
    repo = ctx.repo
    REPO[0] = repo
    tainted = taint_set(dec)
    n_shape = 0
    # constants stored into type-dispatch dictionaries (for the exhaustive-else check)
    stored_consts = {}
    for st in walk_stmts(dec.node.body):
        if isinstance(st, ast.Assign) and isinstance(st.targets[0], ast.Subscript) and isinstance(st.value, ast.Constant) and isinstance(st.value.value, str):
            stored_consts.setdefault(norm(st.targets[0].value), set()).add(st.value.value)
    for st in walk_stmts(dec.node.body):
        if isinstance(st, ast.Assert):
            if isinstance(st.test, ast.Constant) and not st.test.value:
                ok, why = exhaustive_else(dec, st, stored_consts)
                ctx.check(ok, "R18.2", dec.where(st), "`assert False` sits on the else of an exhaustive dispatch over constants assigned in this function (unreachable)", key_of(dec, "assert-false:" + why), why=why)
                continue
            h = handled_by(dec, st)
            dep = data_dependent(dec, st.test, tainted)
            if not dep:
                ctx.holds("R18.2", dec.where(st), f"assert `{norm(st.test)[:60]}` does not depend on component data", nontrivial=False)
                continue
            n_shape += 1
            if h is not None:
                rets = [r for r in walk_stmts(h.body) if isinstance(r, ast.Return)]
                conv = bool(rets) and all(r in m.fail_returns for r in rets) and isinstance(h.body[-1], ast.Return)
                ctx.check(conv, "R18.2", dec.where(st), f"shape assert `{norm(st.test)[:70]}` is caught and converted into the skip return", key_of(dec, f"assert-handler:{norm(st.test)}"))
            else:
                ctx.violated("R18.2", dec.where(st), f"shape condition `{norm(st.test)[:90]}` is a bare assert: an AssertionError escapes the ordering function and aborts the chromosome loop (no handler in the caller)", key_of(dec, f"bare-assert:{norm(st.test)}"))
        elif isinstance(st, ast.Raise):
            if st.exc is not None and norm(st.exc).split("(")[0] == "AssertionError":
                # `raise AssertionError` on the else of an exhaustive dispatch is `assert False` written out
                ok, why = exhaustive_else(dec, st, stored_consts)
                if ok:
                    ctx.holds("R18.2", dec.where(st), "`raise AssertionError` sits on the else of an exhaustive dispatch over constants assigned in this function (unreachable)", why=why)
                    continue
            h = handled_by(dec, st)
            n_shape += 1
            if h is None:
                ctx.violated("R18.2", dec.where(st), f"`{norm(st)[:80]}` escapes the ordering function and aborts the chromosome loop", key_of(dec, f"raise:{norm(st)}"))
            else:
                ctx.holds("R18.2", dec.where(st), "raise is caught inside the ordering function")
    # the conversions that replaced asserts: explicit `if <shape test>: return <failure>` — count them so the rule is not vacuous
    conv = [r for r in m.fail_returns]
    ctx.require_count("R18.2", len(conv) + n_shape, 1, dec.where(), "shape conditions (converted or asserted)")
    ctx.holds("R18.2", dec.where(), f"{len(conv)} skip return(s) report non-chain shapes without raising", conversions=len(conv))
    # the caller's loop has no handler around the call: confirm (if it had, escapes would be tolerable)
    in_try = any(isinstance(t, ast.Try) and any(x is m.call_stmt for b in t.body for x in ast.walk(b)) for t in walk_own(m.run.node))
    ctx.notes.append(f"caller wraps the call in try/except: {in_try}")
    # argument-validation asserts of direct callees are discharged by constant propagation from the call sites
    for call in [n for n in walk_own(dec.node) if isinstance(n, ast.Call)]:
        callee = repo.resolve_call(dec, call)
        if callee is None or callee is dec:
            continue
        for a in [s for s in callee.node.body if isinstance(s, ast.Assert)]:
            t = a.test
            if isinstance(t, ast.Compare) and len(t.ops) == 1 and isinstance(t.ops[0], ast.In) and isinstance(t.left, ast.Name) and isinstance(t.comparators[0], (ast.Set, ast.Tuple, ast.List)):
                allowed = {const_value(e) for e in t.comparators[0].elts}
                params = callee.params[1:] if callee.cls else callee.params
                if t.left.id in params:
                    i = params.index(t.left.id)
                    arg = call.args[i] if i < len(call.args) else None
                    v = const_value(arg, "?") if arg is not None else "?"
                    if v != "?":
                        ctx.check(v in allowed, "R18.2", dec.where(call), f"argument-validation assert of {callee.qualname} ({norm(t)}) is discharged by the constant argument {v!r}", key_of(dec, f"callee-assert:{norm(call)}"), nontrivial=False) if v in allowed else ctx.violated("R18.2", dec.where(call), f"constant argument {v!r} violates {callee.qualname}'s assert {norm(t)}", key_of(dec, f"callee-assert:{norm(call)}"))


REPO = [None]


def dict_constants(repo, func, name, depth=0):
    """String constants stored as values of the dictionary `name` of `func`: subscript stores, dict comprehensions /
    literals with constant values; followed through `a, b = helper(...)` / `x = helper(...); a, b = x` into the
    position of the helper's returned tuple (or module-level namedtuple)."""
    from ..core import local_defs

    out = set()
    for st in ast.walk(func.node):
        if isinstance(st, ast.Assign) and isinstance(st.targets[0], ast.Subscript) and norm(st.targets[0].value) == name and isinstance(st.value, ast.Constant) and isinstance(st.value.value, str):
            out.add(st.value.value)
        if isinstance(st, ast.Assign) and norm(st.targets[0]) == name:
            if isinstance(st.value, ast.DictComp) and isinstance(st.value.value, ast.Constant) and isinstance(st.value.value.value, str):
                out.add(st.value.value.value)
            if isinstance(st.value, ast.Dict):
                out |= {v.value for v in st.value.values if isinstance(v, ast.Constant) and isinstance(v.value, str)}
    if out or depth > 2:
        return out
    ld = local_defs(func.node)
    for d in ld.get(name, []):
        if isinstance(d, ast.Subscript) and isinstance(const_value(d.slice), int):
            pos, src = const_value(d.slice), d.value
            if isinstance(src, ast.Name):
                ds = [x for x in ld.get(src.id, []) if x is not None]
                src = ds[0] if len(ds) == 1 else src
            if isinstance(src, ast.Call):
                h = repo.resolve_call(func, src)
                if h is not None and h.name != "__init__":
                    for r in ast.walk(h.node):
                        if isinstance(r, ast.Return) and r.value is not None:
                            v = r.value
                            elts = None
                            if isinstance(v, ast.Tuple):
                                elts = list(v.elts)
                            elif isinstance(v, ast.Call) and isinstance(h.module.consts.get(norm(v.func)), ast.Call) and norm(h.module.consts[norm(v.func)].func).endswith("namedtuple") and not v.keywords:
                                elts = list(v.args)
                            if elts and pos < len(elts) and isinstance(elts[pos], ast.Name):
                                out |= dict_constants(repo, h, elts[pos].id, depth + 1)
    return out


def exhaustive_else(dec, st, stored_consts):
    """assert False must be the else-branch of an if/elif chain `v == c1 / v == c2 ...` where the tested
    constants cover every constant stored in the dictionary v is read from."""
    for n in walk_own(dec.node):
        if isinstance(n, ast.If):
            chain_consts = set()
            var = None
            cur = n
            last_else = None
            while True:
                t = cur.test
                if isinstance(t, ast.Compare) and len(t.ops) == 1 and isinstance(t.ops[0], ast.Eq) and isinstance(t.left, ast.Name) and isinstance(t.comparators[0], ast.Constant):
                    if var is None:
                        var = t.left.id
                    if t.left.id != var:
                        break
                    chain_consts.add(t.comparators[0].value)
                else:
                    break
                if len(cur.orelse) == 1 and isinstance(cur.orelse[0], ast.If):
                    cur = cur.orelse[0]
                    continue
                last_else = cur.orelse
                break
            if last_else and any(x is st for x in last_else):
                # where does var come from?
                for a in walk_own(dec.node):
                    if isinstance(a, ast.Assign) and norm(a.targets[0]) == var and isinstance(a.value, ast.Subscript):
                        src = norm(a.value.value)
                        have = stored_consts.get(src, set()) or dict_constants(REPO[0], dec, src)
                        if not have:
                            raise AnalysisError("R18.2", dec.where(st), f"cannot find the constants stored in `{src}` (the table the dispatch reads)")
                        if have <= chain_consts:
                            return True, f"{var} in {sorted(chain_consts)}"
                        return False, f"dispatch over {sorted(chain_consts)} does not cover stored constants {sorted(have)}"
                raise AnalysisError("R18.2", dec.where(st), f"cannot find the source of the dispatch variable `{var}`")
    raise AnalysisError("R18.2", dec.where(st), "`assert False` is not in the else of a recognised dispatch over constants: whether it can be reached is not decided")


EFFECT_METHODS = {"append", "extend", "add", "write", "writelines", "write_gfa", "write_graph", "update", "insert", "remove", "close", "makedirs"}


def r18_3(ctx, m):
    run = m.run
    idx = m.loop.body.index(m.call_stmt)
    outside = []
    for st in m.loop.body[idx + 1 :]:
        if st is m.success_if:
            stmts = list(walk_stmts(m.skip_body))
        else:
            stmts = list(walk_stmts([st]))
        for s in stmts:
            eff = effect_of(s)
            if eff:
                outside.append((s, eff))
    # effects before the call in the same iteration (e.g. registering an output file before knowing the outcome)
    for st in m.loop.body[:idx]:
        for s in walk_stmts([st]):
            eff = effect_of(s)
            if eff:
                outside.append((s, eff))
    # files created per requested chromosome in another loop of the command (a "can we write here?" probe before the work
    # starts): a chromosome that is skipped later leaves its empty files behind
    order_names = {x_.id for x_ in ast.walk(m.loop.iter) if isinstance(x_, ast.Name)}
    for lp_ in walk_own(run.node):
        if isinstance(lp_, ast.For) and lp_ is not m.loop and not any(y_ is lp_ for y_ in ast.walk(m.loop)) and order_names & {x_.id for x_ in ast.walk(lp_.iter) if isinstance(x_, ast.Name)}:
            for c_ in ast.walk(lp_):
                if isinstance(c_, ast.Call) and norm(c_.func) in ("open", "io.open") and len(c_.args) >= 2 and isinstance(c_.args[1], ast.Constant) and isinstance(c_.args[1].value, str) and c_.args[1].value[:1] in ("w", "a", "x"):
                    ctx.violated("R18.3", run.where(c_), f"`{norm(c_)[:50]}` creates a file for every requested chromosome before it is known whether the chromosome can be ordered: a chromosome that is skipped later leaves its (empty) files in the output directory, which differs from a run in which it was not requested", key_of(run, f"file-created-before-outcome:{norm(c_.args[0])[:30]}"))
    # an effect of the success branch that happens only for the first *requested* chromosome (`chromosome == order[0]`): when that
    # one is skipped the effect (a header line) never happens, so the other chromosomes' output depends on it
    from .c09 import guards_of as _gof18

    lv_ = norm(m.loop.target)
    for s_ in walk_stmts(m.success_body):
        if effect_of(s_):
            for t_, _p in _gof18(run.node, s_):
                for q_ in ast.walk(t_):
                    if isinstance(q_, ast.Compare) and len(q_.ops) == 1 and isinstance(q_.ops[0], (ast.Eq, ast.NotEq, ast.Is, ast.IsNot)) and {norm(q_.left), norm(q_.comparators[0])} & {lv_} and any(isinstance(x_, ast.Subscript) and isinstance(x_.value, ast.Name) and x_.value.id in order_names and const_value(x_.slice, None) in (0, -1) for x_ in ast.walk(q_)):
                        ctx.violated("R18.3", run.where(s_), f"`{norm(s_)[:50]}` happens only when `{norm(q_)[:50]}`, i.e. for the chromosome named first in the requested order: when that chromosome cannot be ordered and is skipped, it happens for none, so what is written for the others (the header of the complete table) depends on a component they have nothing to do with", key_of(run, f"effect-tied-to-first-requested:{norm(q_)[:40]}"))
    inside = [(s, effect_of(s)) for s in walk_stmts(m.success_body) if effect_of(s)]
    ctx.require_count("R18.3", len(inside), 3, run.where(m.success_if), "effects (tag stores, writes, registrations) inside the success branch")
    if outside:
        for s, eff in outside:
            ctx.violated("R18.3", run.where(s), f"{eff} happens for a chromosome regardless of whether it could be ordered (not dominated by the success test)", key_of(run, f"effect-outside-success:{norm(s)[:120]}"), statement=norm(s)[:160])
    else:
        ctx.holds("R18.3", run.where(m.success_if), f"all {len(inside)} effects of one chromosome (tag stores, CSV/GFA writes, output registrations) are inside the success branch", effects=len(inside))
    # the concatenation reads only registered files: loops over the registries
    regs = set()
    for s, eff in inside:
        if eff.startswith("registration"):
            regs.add(norm(s.value.func.value))
    # lists derived from a registry after the loop (`out_gfa = [g for g, _ in written]`) are registries too
    for _ in range(2):
        for st in walk_stmts(run.node.body):
            if isinstance(st, ast.Assign) and len(st.targets) == 1 and isinstance(st.targets[0], ast.Name) and isinstance(st.value, (ast.ListComp, ast.GeneratorExp)) and len(st.value.generators) == 1 and norm(st.value.generators[0].iter) in regs and not st.value.generators[0].ifs:
                regs.add(st.targets[0].id)
    tail_opens = []
    for n in walk_own(run.node):
        if isinstance(n, ast.For) and norm(n.iter) in regs:
            tail_opens.append(n)
    # graph writes after the chromosome loop: the node set written must come from what the success branch registered
    from ..core import local_defs

    ld = local_defs(run.node)
    late = []
    in_loop_ids = {id(x) for x in ast.walk(m.loop)}
    if not any(x is m.loop for x in ast.walk(run.node)):
        raise AnalysisError("R18.3", run.where(), "the chromosome loop is not part of the entry function as analysed here (it runs inside a generator): what is written after it is not decided")
    for n in walk_own(run.node):
        if isinstance(n, ast.Call) and isinstance(n.func, ast.Attribute) and n.func.attr in ("write_gfa", "write_graph") and id(n) not in in_loop_ids and run.before(m.loop, n):
            late.append(n)
    for c in late:
        ba = ctx.repo.bound_args(run, c) or {}
        src = ba.get("set_of_nodes")
        names = set()
        frontier = [src] if src is not None else []
        for _ in range(4):
            nxt = []
            for e in frontier:
                for nm in names_in(e):
                    if nm not in names:
                        names.add(nm)
                        nxt += [d for d in ld.get(nm, []) if d is not None]
            frontier = nxt
        fed = bool(names & {r.split(".")[0].split("[")[0] for r in regs})
        if not fed and not any(".nodes" in norm(d) or "graph" in nm for nm in names for d in ([x for x in ld.get(nm, []) if x is not None] or [ast.Name(id=nm, ctx=ast.Load())])):
            raise AnalysisError("R18.3", run.where(c), f"cannot trace the node set `{norm(src)[:50] if src is not None else None}` of a graph written after the chromosome loop to a registry of the success branch or to the whole graph")
        ctx.check(fed, "R18.3", run.where(c), "a graph written after the chromosome loop contains only what the success branch registered (not nodes picked from the whole graph, e.g. by the presence of a BO tag that a skipped component may carry from the input)", key_of(run, f"late-write-source:{norm(src)[:60] if src is not None else None}"), source=norm(src) if src is not None else None)
    ctx.check(len(regs) >= 1 and (len(tail_opens) >= 1 or bool(late)), "R18.3", run.where(), "the complete-file concatenation iterates only the registries filled in the success branch", key_of(run, "concat-over-registries"), registries=sorted(regs), loops=len(tail_opens))


def effect_of(s):
    if isinstance(s, ast.Assign) and any(isinstance(t, ast.Subscript) and ".tags" in norm(t) for t in s.targets):
        return "tag store"
    if isinstance(s, ast.Expr) and isinstance(s.value, ast.Call) and isinstance(s.value.func, ast.Attribute):
        recv = norm(s.value.func.value)
        meth = s.value.func.attr
        if recv.startswith("logg") or recv.startswith("log."):
            return None
        if meth in ("append", "extend", "add", "insert"):
            return f"registration {norm(s.value)[:50]}"
        if meth in EFFECT_METHODS:
            return f"write/effect {norm(s.value)[:50]}"
    if isinstance(s, ast.Assign) and isinstance(s.value, ast.Call) and norm(s.value.func) == "open":
        mode = const_value(s.value.args[1]) if len(s.value.args) > 1 else "r"
        if isinstance(mode, str) and any(c in mode for c in "wax+"):
            return f"file creation {norm(s.value)[:50]}"
    if isinstance(s, ast.AugAssign) and not isinstance(s.target, ast.Name):
        return "store"
    return None


def r18_4(ctx, m):
    """The recognised shape conditions are present and look at the data they are about:
    cycle with other than two scaffold ends; number of degree-1 / degree-2 scaffold elements; one contig name among the
    scaffold nodes (the SN *value*, not the tag's type letter); ascending reference offsets."""
    dec = m.dec
    conds = []
    for st in walk_stmts(dec.node.body):
        if isinstance(st, ast.If) and any(r in m.fail_returns for r in walk_stmts(st.body)):
            conds.append(st)
        if isinstance(st, ast.Try) and any(r in m.fail_returns for h in st.handlers for r in walk_stmts(h.body)):
            conds.append(st)
    ctx.require_count("R18.4", len(conds), 5, dec.where(), "shape conditions that lead to the skip return")
    repo = ctx.repo

    def closure(node, depth=0, seen=None):
        """Text of `node` plus, transitively, the definitions of the local names it reads: assigned values, values
        appended / added to them, the guards of those appends, and the bodies of same-module helpers it calls."""
        seen = seen if seen is not None else set()
        out = [norm(node)]
        if depth > 3:
            return out
        for x in ast.walk(node):
            if isinstance(x, ast.Call):
                h = repo.resolve_call(dec, x)
                if h is not None and h.module is dec.module and h.qualname not in seen and h is not dec:
                    seen.add(h.qualname)
                    out.append(norm(h.node))
            if isinstance(x, ast.Name) and x.id not in seen:
                seen.add(x.id)
                for st in walk_own(dec.node):
                    if isinstance(st, ast.Assign) and any(x.id in names_in(t) for t in st.targets) and not any(y is st for y in ast.walk(node)):
                        out += closure(st.value, depth + 1, seen)
                    if isinstance(st, ast.Call) and isinstance(st.func, ast.Attribute) and st.func.attr in ("append", "add", "extend", "update") and isinstance(st.func.value, ast.Name) and st.func.value.id == x.id:
                        for a in st.args:
                            out += closure(a, depth + 1, seen)
                        from .c09 import guards_of

                        stmt = next((s_ for s_ in walk_stmts(dec.node.body) if isinstance(s_, ast.Expr) and s_.value is st), None)
                        if stmt is not None:
                            for t, _pol in guards_of(dec.node, stmt):
                                out += closure(t, depth + 1, seen)
        return out

    def cond_expr(c):
        return c.test if isinstance(c, ast.If) else c

    ctext = {id(c): " ; ".join(closure(cond_expr(c))) for c in conds}
    sn = [c for c in conds if "tags['SN']" in ctext[id(c)]]
    if not sn:
        ctx.violated("R18.4", dec.where(), "no skip condition looks at the contig names (SN) of the scaffold nodes: components joined through a haplotype are not recognised", key_of(dec, "sn-condition-missing"))
    from ..core import resolve_expr

    for c in sn:
        t = resolve_expr(dec.node, cond_expr(c)) if isinstance(c, ast.If) else norm(c)
        te = ast.parse(t, mode="eval").body if isinstance(c, ast.If) else c
        subs = [s_ for s_ in ast.walk(te) if isinstance(s_, ast.Subscript) and "tags['SN']" in norm(s_)]
        if not subs:
            raise AnalysisError("R18.4", dec.where(c), "the contig-name condition is computed out of sight (helper / loop): cannot tell which element of the SN tag it compares")
        outer = [s_ for s_ in subs if norm(s_).endswith("tags['SN'][0]")]
        cmp1 = any(isinstance(x, ast.Compare) and isinstance(x.left, ast.Call) and norm(x.left.func) == "len" and const_value(x.comparators[0], None) == 1 and isinstance(x.left.args[0], (ast.Call, ast.SetComp)) and "tags['SN']" in norm(x.left.args[0]) for x in ast.walk(te))
        # the SN value tested with `in` / `not in` against a piece of text (the component's name): a substring test
        sub_ = [x for x in ast.walk(cond_expr(c)) if isinstance(x, ast.Compare) and len(x.ops) == 1 and isinstance(x.ops[0], (ast.In, ast.NotIn)) and "tags['SN']" in norm(x.left) and isinstance(x.comparators[0], ast.Name) and x.comparators[0].id in dec.params]
        if sub_:
            ctx.violated("R18.4", dec.where(c), f"`{norm(sub_[0])[:70]}` tests the contig name of a scaffold node with `in` against the text `{sub_[0].comparators[0].id}`: that is a substring test (`chr1` in `chr10`), so a component that joins chr1 and chr10 through a haplotype passes as one contig", key_of(dec, f"sn-substring:{norm(sub_[0])[:40]}"))
            continue
        if not outer and not cmp1:
            raise AnalysisError("R18.4", dec.where(c), f"the contig-name condition `{t[:100]}` is not of the recognised len(set(...)) != 1 form")
        # ... of *all* scaffold nodes of the chain: the list it ranges over is the traversal filtered by node type only
        for comp_ in [x for x in ast.walk(cond_expr(c)) if isinstance(x, (ast.GeneratorExp, ast.SetComp, ast.ListComp))]:
            src_ = comp_.generators[0].iter
            if isinstance(src_, ast.Name):
                d_ = [st_.value for st_ in walk_own(dec.node) if isinstance(st_, ast.Assign) and norm(st_.targets[0]) == src_.id]
                if len(d_) == 1 and isinstance(d_[0], (ast.ListComp, ast.GeneratorExp)) and d_[0].generators[0].ifs:
                    conj_ = []
                    for f_ in d_[0].generators[0].ifs:
                        conj_ += f_.values if isinstance(f_, ast.BoolOp) and isinstance(f_.op, ast.And) else [f_]
                    extra_ = [norm(q) for q in conj_ if "tags['SN']" in norm(q) or (names_in(q) & set(dec.params))]
                    if extra_:
                        ctx.violated("R18.4", dec.where(c), f"the scaffold nodes the contig-name condition looks at are pre-filtered by `{extra_[0][:70]}`: nodes of another contig are taken out before they are compared, so a component joined through a haplotype passes as one contig", key_of(dec, f"sn-prefiltered:{extra_[0][:40]}"))
        ok = not outer and cmp1
        ctx.check(ok, "R18.4", dec.where(c), "the contig-name condition compares the SN tag values of the scaffold nodes (the whole tag or its value element), not the type letter, which is the same for every node", key_of(dec, f"sn-condition:{t[:120]}"), condition=t[:200])
    deg = [c for c in conds if "neighbors()" in ctext[id(c)]]
    if len(deg) < 2 and any(isinstance(x, ast.Call) and isinstance(x.func, ast.Attribute) and x.func.attr == "neighbors" for x in walk_own(dec.node)):
        raise AnalysisError("R18.4", dec.where(), f"the degrees of the scaffold nodes are computed (`.neighbors()`), but only {len(deg)} skip condition(s) could be traced to them: the census is not read")
    ctx.check(len(deg) >= 2, "R18.4", dec.where(), "the degree census (two ends of degree 1, all others of degree 2) leads to the skip return", key_of(dec, f"degree-conditions:{len(deg)}"))
    # ... as a decision table over (exactly two nodes of degree 1?, all other nodes of degree 2?): the component is given up in
    # every world but (yes, yes)
    census = {}
    for st_ in walk_own(dec.node):
        if isinstance(st_, ast.Assign) and isinstance(st_.targets[0], ast.Name) and isinstance(st_.value, (ast.ListComp, ast.GeneratorExp)) and "neighbors()" in norm(st_.value):
            for c_ in ast.walk(st_.value):
                if isinstance(c_, ast.Compare) and len(c_.ops) == 1 and isinstance(c_.ops[0], ast.Eq) and const_value(c_.comparators[0], None) in (1, 2) and "neighbors()" in norm(c_.left):
                    census[st_.targets[0].id] = const_value(c_.comparators[0])
    ones = [k for k, v in census.items() if v == 1]
    twos = [k for k, v in census.items() if v == 2]
    if len(ones) == 1 and len(twos) == 1 and len(deg) >= 1:
        def atom(e):
            if isinstance(e, ast.Compare) and len(e.ops) == 1 and isinstance(e.ops[0], (ast.Eq, ast.NotEq)):
                l_, r_ = norm(e.left), norm(e.comparators[0])
                pos = isinstance(e.ops[0], ast.Eq)
                if {l_, r_} == {f"len({ones[0]})", "2"}:
                    return ("A", pos)
                if f"len({twos[0]})" in (l_, r_) and any(t_.replace(" ", "") in (x_.replace(" ", "") for x_ in (l_, r_)) for t_ in (f"len({m_g}) - 2" for m_g in {norm(a_.args[0]) for a_ in ast.walk(dec.node) if isinstance(a_, ast.Call) and norm(a_.func) == "len" and a_.args})):
                    return ("B", pos)
                if {l_.replace(" ", ""), r_.replace(" ", "")} & {f"len({twos[0]})+2"}:
                    return ("B", pos)
            return None

        def tv(e, w):
            if isinstance(e, ast.BoolOp):
                vs = [tv(v_, w) for v_ in e.values]
                if any(v_ is None for v_ in vs):
                    return None
                return all(vs) if isinstance(e.op, ast.And) else any(vs)
            if isinstance(e, ast.UnaryOp) and isinstance(e.op, ast.Not):
                v_ = tv(e.operand, w)
                return None if v_ is None else not v_
            a_ = atom(e)
            if a_ is None:
                return None
            return w[a_[0]] == a_[1]

        def own_text(c_):
            return norm(c_.test) if isinstance(c_, ast.If) else " ".join(norm(x_) for x_ in c_.body)

        census_conds = [c_ for c_ in deg if f"len({ones[0]})" in own_text(c_) or f"len({twos[0]})" in own_text(c_)]
        if not census_conds:
            raise AnalysisError("R18.4", dec.where(deg[0]), "cannot find the conditions that test the numbers of degree-1 / degree-2 nodes")
        witness = None
        for A_ in (True, False):
            for B_ in (True, False):
                w = {"A": A_, "B": B_}
                skipped = False
                for c_ in census_conds:
                    if isinstance(c_, ast.If):
                        v_ = tv(c_.test, w)
                    else:
                        asserts = [x_ for x_ in c_.body if isinstance(x_, ast.Assert)]
                        v_ = None if len(asserts) != 1 else (lambda t_: None if t_ is None else not t_)(tv(asserts[0].test, w))
                    if v_ is None:
                        raise AnalysisError("R18.4", dec.where(c_), "cannot read a degree condition as a test on the number of degree-1 / degree-2 nodes of the collapsed graph")
                    skipped = skipped or v_
                if skipped != (not (A_ and B_)):
                    witness = {"two_nodes_of_degree_1": A_, "all_others_degree_2": B_, "component_given_up": skipped}
        ctx.check(witness is None, "R18.4", dec.where(census_conds[0]), "decision table of the degree census: the component is given up unless exactly two nodes of the collapsed graph have degree 1 and all others degree 2", key_of(dec, f"census-table:{witness}"), **({"witness": witness} if witness else {"worlds": 4}))
    def _pair_sources(c):
        """for a test on the loop variables of `for a, b in zip(X, X[1:])`: the closure text of X"""
        out = ""
        for lp in walk_own(dec.node):
            if isinstance(lp, ast.For) and any(x is c for x in ast.walk(lp)) and isinstance(lp.iter, ast.Call) and norm(lp.iter.func) == "zip":
                out += " ; ".join(closure(lp.iter))
        return out

    asc = [c for c in conds if isinstance(c, ast.If) and ("tags['SO']" in ctext[id(c)] or "tags['SO']" in _pair_sources(c))]
    verdicts = []
    for c in asc:
        tt = norm(c.test).replace(" ", "")
        import re as _re

        strict = _re.fullmatch(r"not(\w+)\[(\w+)\]<\1\[\2\+1\]|(\w+)\[(\w+)\]>=\3\[\4\+1\]|(\w+)\[(\w+)\+1\]<=\5\[\6\]", tt)
        weak = _re.fullmatch(r"not(\w+)\[(\w+)\]<=\1\[\2\+1\]|(\w+)\[(\w+)\]>\3\[\4\+1\]|(\w+)\[(\w+)\+1\]<\5\[\6\]", tt)
        z_strict = _re.fullmatch(r"notall\(\(?(\w+)<(\w+)for\1,\2inzip\((\w+),\3\[1:\]\)\)?\)|any\(\(?(\w+)>=(\w+)for\4,\5inzip\((\w+),\6\[1:\]\)\)?\)|notall\(\(?(\w+)>(\w+)for\8,\7inzip\((\w+),\9\[1:\]\)\)?\)", tt)
        z_weak = _re.fullmatch(r"notall\(\(?(\w+)<=(\w+)for\1,\2inzip\((\w+),\3\[1:\]\)\)?\)|any\(\(?(\w+)>(\w+)for\4,\5inzip\((\w+),\6\[1:\]\)\)?\)", tt)
        # pairwise loop: for a, b in zip(X, X[1:]): if not a < b: <skip>
        pair = None
        for lp in walk_own(dec.node):
            if isinstance(lp, ast.For) and any(x is c for x in ast.walk(lp)) and isinstance(lp.iter, ast.Call) and norm(lp.iter.func) == "zip" and len(lp.iter.args) == 2 and norm(lp.iter.args[1]) == f"{norm(lp.iter.args[0])}[1:]" and isinstance(lp.target, ast.Tuple) and len(lp.target.elts) == 2:
                pair = [norm(e) for e in lp.target.elts]
        p_strict = p_weak = None
        if pair:
            a_, b_ = pair
            p_strict = tt in (f"not{a_}<{b_}", f"{a_}>={b_}", f"{b_}<={a_}")
            p_weak = tt in (f"not{a_}<={b_}", f"{a_}>{b_}", f"{b_}<{a_}")
        if strict or z_strict or p_strict:
            verdicts.append(True)
        elif weak or z_weak or p_weak:
            verdicts.append(False)
    if not verdicts and asc:
        # a spelling outside the recognised ones: the loop (or quantifier) is evaluated on every order type of up to four
        # scaffold offsets; it must give up exactly when some consecutive pair does not strictly ascend
        from . import sort_common as _sc
        import itertools as _it

        c = asc[0]
        lp = None
        for l_ in walk_own(dec.node):
            if isinstance(l_, ast.For) and any(x is c for x in l_.body):
                lp = l_
        names_ = {n_.id for n_ in ast.walk(c.test) if isinstance(n_, ast.Name)} | ({n_.id for n_ in ast.walk(lp.iter) if isinstance(n_, ast.Name)} if lp is not None else set())
        lists_ = [n_ for n_ in names_ if any(isinstance(st_, ast.Assign) and norm(st_.targets[0]) == n_ and "tags['SO']" in " ".join(closure(st_.value)) for st_ in walk_own(dec.node))]
        if len(lists_) == 1:
            lv = lists_[0]
            bad_ = None
            try:
                for n_ in (2, 3, 4):
                    for combo in _it.product(range(n_), repeat=n_):
                        L_ = list(combo)
                        want = any(not L_[j] < L_[j + 1] for j in range(n_ - 1))
                        if lp is not None:
                            got = False
                            for item in _sc.eval_list_test(lp.iter, lv, L_, {}):
                                env_ = {}
                                if isinstance(lp.target, ast.Name):
                                    env_[lp.target.id] = item
                                elif isinstance(lp.target, ast.Tuple):
                                    env_.update({t_.id: v_ for t_, v_ in zip(lp.target.elts, item)})
                                if _sc.eval_list_test(c.test, lv, L_, {}, env0=env_):
                                    got = True
                                    break
                        else:
                            got = bool(_sc.eval_list_test(c.test, lv, L_, {}))
                        if got != want and bad_ is None:
                            bad_ = (L_, got, want)
            except _sc.ListUnsupported:
                bad_ = "unsupported"
            if bad_ != "unsupported":
                if bad_ is None:
                    verdicts.append(True)
                else:
                    ctx.violated("R18.4", dec.where(c), f"the ascending-offset condition gives {'skip' if bad_[1] else 'no skip'} for scaffold offsets {bad_[0]} (in chain order), where {'a' if bad_[2] else 'no'} consecutive pair fails to ascend: a component whose offsets are out of order there is ordered and written instead of skipped", key_of(dec, f"ascending-evaluated:{bad_[0]}"))
                    return
    if not verdicts:
        if asc:
            # an orientation test (first vs last) alone is not the ascending check; a condition we cannot read is undecided
            unread = [c for c in asc if "[0]" not in norm(c.test) or "[-1]" not in norm(c.test)]
            if unread:
                raise AnalysisError("R18.4", dec.where(unread[0]), f"cannot read the ascending-offset condition `{norm(unread[0].test)[:90]}`")
        ok_asc = False
    else:
        ok_asc = all(verdicts)
    ctx.check(ok_asc, "R18.4", dec.where(), "scaffold offsets that do not strictly ascend along the chain lead to the skip return", key_of(dec, f"ascending-condition:{verdicts}"))
