"""E1 — source model, reporting, evidence, known findings.

A *rule instance* (obligation) is one application of one rule to one construct of the program.
It ends in one of three verdicts:

  holds      — the construct satisfies the rule
  violated   — reported as VIOLATION unless the (property, rule, key) triple is listed as an open
               finding in /verif/known_findings.json (then: KNOWN-FINDING line, exit 0)
  undecidable— AnalysisError: the construct is outside the idioms the rule understands, or the
               anchor cannot be located.  Exit 2, line ANALYSIS-ERROR; never a silent pass.
"""

from __future__ import annotations

import ast
import copy
import json
import os
import re
import sys
import time
from dataclasses import dataclass, field

VERIF = os.path.dirname(os.path.dirname(os.path.abspath(__file__)))


class AnalysisError(Exception):
    """The analysis cannot decide (anchor missing / unsupported idiom)."""

    def __init__(self, rule, where, reason):
        super().__init__(f"{rule} at {where}: {reason}")
        self.rule = rule
        self.where = where
        self.reason = reason


# --------------------------------------------------------------------------------------------
# source model
# --------------------------------------------------------------------------------------------


def norm(node) -> str:
    """Normalised source of an AST node: whitespace-, quote- and parenthesis-insensitive."""
    if node is None:
        return "None"
    if isinstance(node, str):
        return node
    if isinstance(node, list):
        return "; ".join(norm(n) for n in node)
    return ast.unparse(node)


class Func:
    """A function or method of the analysed program."""

    def __init__(self, module, qualname, node, cls=None, parent=None):
        self.module = module
        self.qualname = qualname
        self.node = node
        self.cls = cls
        self.parent = parent

    @property
    def name(self):
        return self.node.name

    @property
    def file(self):
        return self.module.relpath

    @property
    def params(self):
        a = self.node.args
        return [x.arg for x in a.posonlyargs + a.args]

    def where(self, node=None):
        line = getattr(node, "lineno", None) if node is not None else self.node.lineno
        return f"{self.file}:{line} {self.qualname}"

    def pos(self, node):
        """Position of `node` in the text order of this function's (possibly normalised) body.  Line numbers are kept
        from the source for reporting and are not an order once helpers have been inlined: use this to ask "before?"."""
        idx = getattr(self, "_pos_index", None)
        if idx is None:
            idx = {}

            def dfs(n):
                idx[id(n)] = len(idx)
                for c in ast.iter_child_nodes(n):
                    dfs(c)

            dfs(self.node)
            self._pos_index = idx
        return idx.get(id(node), -1)

    def before(self, a, b):
        return self.pos(a) < self.pos(b)

    def __repr__(self):
        return f"<Func {self.module.name}.{self.qualname}>"


class Module:
    def __init__(self, name, path, relpath, source):
        self.name = name
        self.path = path
        self.relpath = relpath
        self.source = source
        self.tree = ast.parse(source, filename=path)
        self._drop_annotations()
        self.funcs: dict[str, Func] = {}
        self.classes: dict[str, ast.ClassDef] = {}
        self.imports: dict[str, str] = {}  # local alias -> dotted target
        self.consts: dict[str, ast.AST] = {}  # module-level NAME = <expr>
        self._index()

    def _drop_annotations(self):
        """`x: T = e` is read as `x = e`, a bare `x: T` as nothing (in the analyser's copy of the tree): annotations say nothing
        about behaviour, and the rules look for plain assignments."""

        class T(ast.NodeTransformer):
            def visit_ClassDef(self, c):
                # the annotated names directly in a class body are its fields (dataclasses, NamedTuple): they stay
                for st in c.body:
                    if not isinstance(st, ast.AnnAssign):
                        self.visit(st)
                return c

            def visit_AnnAssign(self, n):
                self.generic_visit(n)
                if n.value is None:
                    return ast.copy_location(ast.Pass(), n)
                return ast.copy_location(ast.Assign(targets=[n.target], value=n.value, lineno=n.lineno), n)

        if any(isinstance(x, ast.AnnAssign) for x in ast.walk(self.tree)):
            self.tree = ast.fix_missing_locations(T().visit(self.tree))
            # a class body / function body left with only `pass` statements from bare annotations stays syntactically fine

    def _index(self):
        for st in self.tree.body:
            if isinstance(st, ast.Import):
                for a in st.names:
                    self.imports[a.asname or a.name.split(".")[0]] = a.name if a.asname else a.name.split(".")[0]
                    if a.asname:
                        self.imports[a.asname] = a.name
            elif isinstance(st, ast.ImportFrom):
                base = st.module or ""
                if st.level:
                    pkg = self.name.rsplit(".", st.level)[0] if "." in self.name else self.name
                    base = pkg + ("." + base if base else "")
                for a in st.names:
                    self.imports[a.asname or a.name] = base + "." + a.name
            elif isinstance(st, ast.Assign) and len(st.targets) == 1 and isinstance(st.targets[0], ast.Name):
                self.consts[st.targets[0].id] = st.value
        self._index_funcs(self.tree.body, prefix="", cls=None, parent=None)
        self._index_aliases(self.tree.body, prefix="")

    def _index_aliases(self, body, prefix):
        """`old_name = new_name` at module / class level, where new_name is a function of that scope, and one-line wrappers
        `def old_name(...): return new_name(<the same parameters>)`: the old name stands for the same function (a rename that keeps
        the public name alive)"""
        for st in body:
            if isinstance(st, ast.Assign) and len(st.targets) == 1 and isinstance(st.targets[0], ast.Name) and isinstance(st.value, ast.Name):
                new_q, old_q = prefix + st.value.id, prefix + st.targets[0].id
                if new_q in self.funcs and old_q not in self.funcs:
                    self.funcs[old_q] = self.funcs[new_q]
                    self.aliases = getattr(self, "aliases", {})
                    self.aliases[old_q] = new_q
            elif isinstance(st, ast.ClassDef):
                self._index_aliases(st.body, prefix + st.name + ".")
            elif isinstance(st, (ast.FunctionDef, ast.AsyncFunctionDef)):
                body_ = [x for x in st.body if not (isinstance(x, ast.Expr) and isinstance(x.value, ast.Constant))]
                if len(body_) == 1 and isinstance(body_[0], ast.Return) and isinstance(body_[0].value, ast.Call) and not body_[0].value.keywords:
                    c = body_[0].value
                    params = [a.arg for a in st.args.posonlyargs + st.args.args]
                    callee = None
                    if isinstance(c.func, ast.Name):
                        callee, args = prefix + c.func.id, [norm(a) for a in c.args]
                        want = params
                    elif isinstance(c.func, ast.Attribute) and isinstance(c.func.value, ast.Name) and c.func.value.id == "self" and prefix:
                        callee, args = prefix + c.func.attr, ["self"] + [norm(a) for a in c.args]
                        want = params
                    if callee and callee in self.funcs and callee != prefix + st.name and args == want:
                        self.funcs[prefix + st.name] = self.funcs[callee]
                        self.aliases = getattr(self, "aliases", {})
                        self.aliases[prefix + st.name] = callee

    def _index_funcs(self, body, prefix, cls, parent):
        for st in body:
            if isinstance(st, (ast.FunctionDef, ast.AsyncFunctionDef)):
                q = prefix + st.name
                f = Func(self, q, st, cls=cls, parent=parent)
                self.funcs[q] = f
                self._index_funcs(st.body, q + ".<locals>.", cls, f)
            elif isinstance(st, ast.ClassDef):
                self.classes[prefix + st.name] = st
                self._index_funcs(st.body, prefix + st.name + ".", prefix + st.name, parent)
            elif isinstance(st, (ast.If, ast.For, ast.While, ast.With, ast.Try)):
                for sub in ("body", "orelse", "finalbody"):
                    self._index_funcs(getattr(st, sub, []) or [], prefix, cls, parent)
                for h in getattr(st, "handlers", []) or []:
                    self._index_funcs(h.body, prefix, cls, parent)


_CALL_FUNCS = {}


class _FlattenFStrings(ast.NodeTransformer):
    # f"{'>seq_'}{node}" (a literal that took the place of a named constant inside an f-string) is read as f">seq_{node}"

    def visit_JoinedStr(self, n):
        self.generic_visit(n)
        vals = []
        for v in n.values:
            if isinstance(v, ast.FormattedValue) and isinstance(v.value, ast.Constant) and isinstance(v.value.value, str) and v.conversion == -1 and v.format_spec is None:
                v = ast.copy_location(ast.Constant(value=v.value.value), v)
            if isinstance(v, ast.Constant) and vals and isinstance(vals[-1], ast.Constant):
                vals[-1] = ast.copy_location(ast.Constant(value=vals[-1].value + v.value), vals[-1])
            else:
                vals.append(v)
        n.values = vals
        return n


class _TupleLit(tuple):
    """value of a module-level constant that is a tuple of literals"""


def _lit_node(v):
    if isinstance(v, _TupleLit):
        return ast.Tuple(elts=[ast.Constant(value=x) for x in v], ctx=ast.Load())
    return ast.Constant(value=v)


class Repo:
    """All shipped modules of gaftools: gaftools/*.py and gaftools/cli/*.py (what __main__ discovers)."""

    def __init__(self, root="/repo"):
        self.root = os.path.abspath(root)
        self.modules: dict[str, Module] = {}
        pkg = os.path.join(self.root, "gaftools")
        if not os.path.isdir(pkg):
            raise AnalysisError("E1", self.root, "package directory gaftools/ not found")
        for sub, prefix in (("", "gaftools"), ("cli", "gaftools.cli")):
            d = os.path.join(pkg, sub)
            if not os.path.isdir(d):
                continue
            for fn in sorted(os.listdir(d)):
                if not fn.endswith(".py") or fn == "_version.py":
                    continue
                p = os.path.join(d, fn)
                name = prefix if fn == "__init__.py" else prefix + "." + fn[:-3]
                with open(p, encoding="utf-8") as fh:
                    src = fh.read()
                try:
                    self.modules[name] = Module(name, p, os.path.relpath(p, self.root), src)
                except SyntaxError as e:
                    raise AnalysisError("E1", os.path.relpath(p, self.root), f"does not parse: {e}")
        for m_ in self.modules.values():
            m_.repo = self
        self._canonical_names()
        self._fold_named_constants()
        self._precompiled_patterns()
        self._getter_lambdas()
        self._bool_identity_tests()
        self._except_sentinels()
        self._literal_sentinels()
        self._split_parallel_assignments()
        self._running_extrema()
        self._augment_assignments()
        self._push_negations()
        self._keyerror_tries()
        self._get_is_none()
        self._scalarise_records()
        self._truthy_defaults()
        self._positional_calls()
        self._specialise_constant_params()

    # ----------------------------------------------------------------------------------------
    def default_command_line(self, func):
        """{parameter: constant} of a CLI entry function on the default command line: the value argparse hands over when
        the option is not given (the option's `default=`; for a parameter without an option, the signature default).
        Only numeric / string / bool / None constants; parameters reassigned in the function are left out."""
        node = func.node
        a = node.args
        pos = a.posonlyargs + a.args
        out = {}
        for p_, d in list(zip(pos[len(pos) - len(a.defaults):], a.defaults)) + [(p_, d) for p_, d in zip(a.kwonlyargs, a.kw_defaults) if d is not None]:
            if isinstance(d, ast.Constant):
                out[p_.arg] = d.value
        aa = func.module.funcs.get("add_arguments")
        if aa is not None:
            for c in walk_own(aa.node):
                if isinstance(c, ast.Call):
                    kw = {k.arg: k.value for k in c.keywords}
                    dest = kw.get("dest")
                    if isinstance(dest, ast.Constant) and dest.value in out:
                        if "default" in kw:
                            if isinstance(kw["default"], ast.Constant):
                                out[dest.value] = kw["default"].value
                            else:
                                out.pop(dest.value)
                        elif isinstance(kw.get("action"), ast.Constant) and kw["action"].value == "store_true":
                            out[dest.value] = False
                        elif isinstance(kw.get("action"), ast.Constant) and kw["action"].value == "store_false":
                            out[dest.value] = True
                        else:
                            out[dest.value] = None
        stored = {n.id for n in walk_own(node) if isinstance(n, ast.Name) and isinstance(n.ctx, ast.Store)}
        return {k: v for k, v in out.items() if k not in stored}

    def signature_of(self, func, call):
        """(callee, parameter names the call's arguments bind to) for a call resolved to a program function: `self` is
        dropped for bound-method and constructor calls; None when unresolved."""
        callee = self.resolve_call(func, call)
        if callee is None:
            return None
        params = list(callee.params)
        static = any(norm(d) == "staticmethod" for d in callee.node.decorator_list)
        if callee.cls is not None and not static and params and (callee.name == "__init__" or isinstance(call.func, ast.Attribute)):
            params = params[1:]
        va = callee.node.args.vararg.arg if callee.node.args.vararg else None
        kwa = callee.node.args.kwarg.arg if callee.node.args.kwarg else None
        params = [p_ for p_ in params if p_ not in (va, kwa)]
        return callee, params

    def bound_args(self, func, call):
        """parameter name -> argument expression (positional and keyword arguments, then the callee's defaults) of a call
        resolved to a program function; None when unresolved or when the call uses * / **."""
        sig = self.signature_of(func, call)
        if sig is None or any(isinstance(a, ast.Starred) for a in call.args) or any(k.arg is None for k in call.keywords):
            return None
        callee, params = sig
        out = {}
        for p_, a in zip(params, call.args):
            out[p_] = a
        for k in call.keywords:
            out[k.arg] = k.value
        a_ = callee.node.args
        for p_, d in zip(reversed(a_.args), reversed(a_.defaults)):
            out.setdefault(p_.arg, d)
        for p_, d in zip(a_.kwonlyargs, a_.kw_defaults):
            if d is not None:
                out.setdefault(p_.arg, d)
        return out

    def _canonical_names(self):
        """A function that was renamed while its old name is kept alive (`old = new`, or `def old(...): return new(...)`) is read
        under the old name everywhere: definition, method calls, imports (in the analyser's copy of the trees).  The rules name
        the program's functions by the names the project uses for them in its own interface, and those are the ones kept."""
        ren = {}
        for mod in self.modules.values():
            for old_q, new_q in getattr(mod, "aliases", {}).items():
                o, n_ = old_q.split(".")[-1], new_q.split(".")[-1]
                if o != n_:
                    ren[n_] = o
        # an attribute that was renamed while the constructor parameter that feeds it kept its name (`self.contig = contig_id`,
        # the keyword is part of the class's interface): read under the parameter's name, as before the rename
        aren = {}
        all_attrs = {}
        for mod in self.modules.values():
            for x in ast.walk(mod.tree):
                if isinstance(x, ast.Attribute):
                    all_attrs[x.attr] = all_attrs.get(x.attr, 0) + 1
        for mod in self.modules.values():
            for cname, cnode in mod.classes.items():
                init = next((st for st in cnode.body if isinstance(st, ast.FunctionDef) and st.name == "__init__"), None)
                if init is None:
                    continue
                params = {a.arg for a in init.args.posonlyargs + init.args.args + init.args.kwonlyargs}
                stores = {}
                for st in ast.walk(init):
                    if isinstance(st, ast.Assign) and len(st.targets) == 1 and isinstance(st.targets[0], ast.Attribute) and isinstance(st.targets[0].value, ast.Name) and st.targets[0].value.id == "self":
                        stores[st.targets[0].attr] = st.value
                if cname != "StableNode":
                    continue  # (only where the rules name the fields: the interval record of the converters, whose fields are its constructor's parameters)
                for attr, v in stores.items():
                    if isinstance(v, ast.Name) and v.id in params and v.id != attr and v.id not in stores and all_attrs.get(v.id, 0) == 0 and not any(isinstance(m_, ast.FunctionDef) and m_.name in (attr, v.id) for m_ in cnode.body):
                        aren[attr] = v.id
        if aren:
            for mod in self.modules.values():
                for x in ast.walk(mod.tree):
                    if isinstance(x, ast.Attribute) and x.attr in aren:
                        x.attr = aren[x.attr]
        if not ren:
            return
        # a new name that is also used for something else in the program is left alone
        for mod in self.modules.values():
            for x in ast.walk(mod.tree):
                if isinstance(x, (ast.ClassDef,)) and x.name in ren:
                    ren.pop(x.name, None)
        for mod in self.modules.values():
            for x in ast.walk(mod.tree):
                if isinstance(x, (ast.FunctionDef, ast.AsyncFunctionDef)) and x.name in ren:
                    # the one-line wrapper / alias that carried the old name disappears behind the renamed definition
                    x.name = ren[x.name]
                elif isinstance(x, ast.Attribute) and x.attr in ren:
                    x.attr = ren[x.attr]
                elif isinstance(x, ast.Name) and x.id in ren:
                    x.id = ren[x.id]
                elif isinstance(x, ast.alias) and x.name in ren:
                    x.name = ren[x.name]
                elif isinstance(x, ast.keyword) and False:
                    pass
            # drop `old = old` / wrapper definitions that now call themselves, then re-index
            def prune(body):
                out = []
                for st in body:
                    if isinstance(st, ast.Assign) and len(st.targets) == 1 and isinstance(st.targets[0], ast.Name) and isinstance(st.value, ast.Name) and st.targets[0].id == st.value.id:
                        continue
                    if isinstance(st, (ast.FunctionDef, ast.AsyncFunctionDef)):
                        b_ = [y for y in st.body if not (isinstance(y, ast.Expr) and isinstance(y.value, ast.Constant))]
                        if len(b_) == 1 and isinstance(b_[0], ast.Return) and isinstance(b_[0].value, ast.Call) and norm(b_[0].value.func).split(".")[-1] == st.name and len([z for z in body if isinstance(z, (ast.FunctionDef, ast.AsyncFunctionDef)) and z.name == st.name]) > 1:
                            continue
                    if isinstance(st, ast.ClassDef):
                        st.body = prune(st.body) or [ast.Pass()]
                    out.append(st)
                return out

            mod.tree.body = prune(mod.tree.body)
            mod.funcs.clear()
            mod.classes.clear()
            mod.consts.clear()
            mod.imports.clear()
            mod.aliases = {}
            mod._index()

    def _bool_identity_tests(self):
        """`f(x) is False` / `f(x) is not True` is written `not f(x)`, `f(x) is True` / `is not False` is written `f(x)`,
        when f is a program function every return of which is a truth value (a bool constant, a comparison, not / and /
        or of such, any() / all()): in place."""

        def boolish(e, depth=0):
            if isinstance(e, ast.Constant):
                return isinstance(e.value, bool)
            if isinstance(e, ast.Compare):
                return True
            if isinstance(e, ast.UnaryOp) and isinstance(e.op, ast.Not):
                return True
            if isinstance(e, ast.BoolOp):
                return all(boolish(v, depth) for v in e.values)
            if isinstance(e, ast.Call) and isinstance(e.func, ast.Name) and e.func.id in ("any", "all", "bool", "isinstance"):
                return True
            return False

        def returns_bool(fn):
            rets = [r for r in walk_own(fn.node) if isinstance(r, ast.Return)]
            return bool(rets) and all(r.value is not None and boolish(r.value) for r in rets) and not _falls_off(fn.node.body)

        def _falls_off(body):
            if not body:
                return True
            last = body[-1]
            if isinstance(last, (ast.Return, ast.Raise)):
                return False
            if isinstance(last, ast.If):
                return _falls_off(last.body) or _falls_off(last.orelse)
            return True

        repo = self
        for mod in self.modules.values():
            for f in mod.funcs.values():
                if not any(isinstance(x, ast.Compare) and any(isinstance(o, (ast.Is, ast.IsNot)) for o in x.ops) and isinstance(x.comparators[0], ast.Constant) and isinstance(x.comparators[0].value, bool) for x in ast.walk(f.node)):
                    continue

                class T(ast.NodeTransformer):
                    def visit_Compare(self, c):
                        self.generic_visit(c)
                        if len(c.ops) == 1 and isinstance(c.ops[0], (ast.Is, ast.IsNot)) and isinstance(c.comparators[0], ast.Constant) and isinstance(c.comparators[0].value, bool) and isinstance(c.left, ast.Call):
                            callee = repo.resolve_call(f, c.left)
                            if callee is not None and returns_bool(callee):
                                positive = c.comparators[0].value == isinstance(c.ops[0], ast.Is)
                                return c.left if positive else ast.copy_location(ast.UnaryOp(op=ast.Not(), operand=c.left), c)
                        return c

                T().visit(f.node)
                ast.fix_missing_locations(f.node)

    def _except_sentinels(self):
        """A private marker that only carries `the call raised` from a handler to the statement after it
            try: x = CALL                      try: x = CALL
            except E: x = MARK        ->       except E: A
            if x is MARK: A                    else: B
            else: B                  (MARK a module-level or local `object()`; x read nowhere in A)
        is written as the try / except / else it stands for (in place)."""
        for mod in self.modules.values():
            marks = {k for k, v in mod.consts.items() if isinstance(v, ast.Call) and norm(v.func) == "object" and not v.args}
            for f in mod.funcs.values():
                if not any(isinstance(x, ast.Try) for x in ast.walk(f.node)):
                    continue
                local_marks = {st.targets[0].id for st in ast.walk(f.node) if isinstance(st, ast.Assign) and len(st.targets) == 1 and isinstance(st.targets[0], ast.Name) and isinstance(st.value, ast.Call) and norm(st.value.func) == "object" and not st.value.args}
                ms = marks | local_marks
                if not ms:
                    continue
                for parent in ast.walk(f.node):
                    for fld in ("body", "orelse", "finalbody"):
                        lst = getattr(parent, fld, None)
                        if not (isinstance(lst, list) and lst and isinstance(lst[0], ast.stmt)):
                            continue
                        i = 0
                        while i + 1 < len(lst):
                            t, nx = lst[i], lst[i + 1]
                            i += 1
                            if not (isinstance(t, ast.Try) and len(t.body) == 1 and len(t.handlers) == 1 and not t.orelse and not t.finalbody and isinstance(nx, ast.If)):
                                continue
                            a, h = t.body[0], t.handlers[0]
                            if not (isinstance(a, ast.Assign) and len(a.targets) == 1 and isinstance(a.targets[0], ast.Name) and len(h.body) == 1 and isinstance(h.body[0], ast.Assign) and norm(h.body[0].targets[0]) == a.targets[0].id and isinstance(h.body[0].value, ast.Name) and h.body[0].value.id in ms):
                                continue
                            x, mk = a.targets[0].id, h.body[0].value.id
                            tst = nx.test
                            if not (isinstance(tst, ast.Compare) and len(tst.ops) == 1 and isinstance(tst.ops[0], (ast.Is, ast.IsNot)) and {norm(tst.left), norm(tst.comparators[0])} == {x, mk}):
                                continue
                            hit, miss = (nx.body, nx.orelse) if isinstance(tst.ops[0], ast.Is) else (nx.orelse, nx.body)
                            if any(isinstance(n_, ast.Name) and n_.id == x for st in hit for n_ in ast.walk(st)):
                                continue
                            h.body = hit or [ast.copy_location(ast.Pass(), h)]
                            t.orelse = miss
                            del lst[i]
                            ast.fix_missing_locations(t)

    def _literal_sentinels(self):
        """A worker function (the `target=` of a Process constructed in its module) whose last statement puts a text / number
        literal on the queue it was given, while the other functions of the module compare what they take from a queue with
        that same literal (`item == "DONE"`): the literal is an end-of-work marker like None.  It is written None on both
        sides (`put(None)`, `item is None`), in place — the records on the queue are objects of a program class and never equal
        to the literal."""
        for mod in self.modules.values():
            targets = set()
            for x in ast.walk(mod.tree):
                if isinstance(x, ast.Call) and norm(x.func).split(".")[-1] == "Process":
                    for k in x.keywords:
                        if k.arg == "target" and isinstance(k.value, ast.Name):
                            targets.add(k.value.id)
            for wname in targets:
                w = mod.funcs.get(wname)
                if w is None or not w.node.body:
                    continue
                last = w.node.body[-1]
                if not (isinstance(last, ast.Expr) and isinstance(last.value, ast.Call) and isinstance(last.value.func, ast.Attribute) and last.value.func.attr == "put" and isinstance(last.value.func.value, ast.Name) and last.value.func.value.id in w.params and len(last.value.args) == 1 and isinstance(last.value.args[0], ast.Constant) and isinstance(last.value.args[0].value, (str, int)) and not isinstance(last.value.args[0].value, bool)):
                    continue
                lit = last.value.args[0].value
                sites = []
                for f in mod.funcs.values():
                    if f is w:
                        continue
                    for c in ast.walk(f.node):
                        if isinstance(c, ast.Compare) and len(c.ops) == 1 and isinstance(c.ops[0], (ast.Eq, ast.NotEq, ast.Is, ast.IsNot)) and isinstance(c.left, ast.Name) and isinstance(c.comparators[0], ast.Constant) and type(c.comparators[0].value) is type(lit) and c.comparators[0].value == lit:
                            sites.append(c)
                if not sites:
                    continue
                last.value.args[0] = ast.copy_location(ast.Constant(value=None), last.value.args[0])
                for c in sites:
                    c.ops = [ast.Is() if isinstance(c.ops[0], (ast.Eq, ast.Is)) else ast.IsNot()]
                    c.comparators = [ast.copy_location(ast.Constant(value=None), c.comparators[0])]

    def _precompiled_patterns(self):
        """A module-level `P = re.compile(E)` (bound once, never rebound in a function of the module) used as `P.match(x)` is
        `re.match(E, x)`; a module-level `T2 = {k: re.compile(v) for k, v in T.items()}` used as `T2[K].match(x)` is
        `re.match(T[K], x)` (in place, in the module that defines them)."""
        METHS = ("match", "search", "fullmatch", "findall", "finditer", "split", "sub")
        for mod in self.modules.values():
            pats, tabs = {}, {}
            stores = {}
            for x in ast.walk(mod.tree):
                if isinstance(x, ast.Name) and isinstance(x.ctx, ast.Store):
                    stores[x.id] = stores.get(x.id, 0) + 1
            for st in mod.tree.body:
                if isinstance(st, ast.Assign) and len(st.targets) == 1 and isinstance(st.targets[0], ast.Name) and stores.get(st.targets[0].id) == 1:
                    v = st.value
                    if isinstance(v, ast.Call) and norm(v.func) == "re.compile" and v.args and not v.keywords:
                        pats[st.targets[0].id] = v.args
                    elif isinstance(v, ast.DictComp) and len(v.generators) == 1 and not v.generators[0].ifs:
                        g = v.generators[0]
                        if isinstance(g.target, ast.Tuple) and len(g.target.elts) == 2 and all(isinstance(e, ast.Name) for e in g.target.elts) and isinstance(g.iter, ast.Call) and isinstance(g.iter.func, ast.Attribute) and g.iter.func.attr == "items" and isinstance(g.iter.func.value, ast.Name) and not g.iter.args:
                            kn, vn = g.target.elts[0].id, g.target.elts[1].id
                            if isinstance(v.key, ast.Name) and v.key.id == kn and isinstance(v.value, ast.Call) and norm(v.value.func) == "re.compile" and len(v.value.args) == 1 and norm(v.value.args[0]) == vn and not v.value.keywords:
                                tabs[st.targets[0].id] = g.iter.func.value.id
            if not pats and not tabs:
                continue
            import copy as _copy

            class T(ast.NodeTransformer):
                def visit_Call(self, c):
                    self.generic_visit(c)
                    if isinstance(c.func, ast.Attribute) and c.func.attr in METHS:
                        r = c.func.value
                        if isinstance(r, ast.Name) and r.id in pats:
                            new = ast.Call(func=ast.Attribute(value=ast.Name(id="re", ctx=ast.Load()), attr=c.func.attr, ctx=ast.Load()), args=[_copy.deepcopy(a) for a in pats[r.id]] + c.args, keywords=c.keywords)
                            return ast.fix_missing_locations(ast.copy_location(new, c))
                        if isinstance(r, ast.Subscript) and isinstance(r.value, ast.Name) and r.value.id in tabs:
                            src = ast.Subscript(value=ast.Name(id=tabs[r.value.id], ctx=ast.Load()), slice=r.slice, ctx=ast.Load())
                            new = ast.Call(func=ast.Attribute(value=ast.Name(id="re", ctx=ast.Load()), attr=c.func.attr, ctx=ast.Load()), args=[src] + c.args, keywords=c.keywords)
                            return ast.fix_missing_locations(ast.copy_location(new, c))
                    return c

            for f in mod.funcs.values():
                if f.parent is None:
                    T().visit(f.node)

    def _getter_lambdas(self):
        """`operator.itemgetter(2)` / `itemgetter(1, 2)` / `attrgetter("start")` with constant arguments are written as the
        lambdas they stand for (`lambda item: item[2]`, `lambda item: (item[1], item[2])`, `lambda item: item.start`), in place."""

        class T(ast.NodeTransformer):
            def visit_Call(self, c):
                self.generic_visit(c)
                fn = norm(c.func)
                if fn in ("operator.itemgetter", "itemgetter") and c.args and not c.keywords and all(isinstance(a, ast.Constant) and isinstance(a.value, (int, str)) for a in c.args):
                    subs = [ast.Subscript(value=ast.Name(id="item", ctx=ast.Load()), slice=ast.Constant(value=a.value), ctx=ast.Load()) for a in c.args]
                elif fn in ("operator.attrgetter", "attrgetter") and c.args and not c.keywords and all(isinstance(a, ast.Constant) and isinstance(a.value, str) and a.value.isidentifier() for a in c.args):
                    subs = [ast.Attribute(value=ast.Name(id="item", ctx=ast.Load()), attr=a.value, ctx=ast.Load()) for a in c.args]
                else:
                    return c
                body = subs[0] if len(subs) == 1 else ast.Tuple(elts=subs, ctx=ast.Load())
                lam = ast.Lambda(args=ast.arguments(posonlyargs=[], args=[ast.arg(arg="item")], kwonlyargs=[], kw_defaults=[], defaults=[]), body=body)
                return ast.fix_missing_locations(ast.copy_location(lam, c))

        for mod in self.modules.values():
            for f in mod.funcs.values():
                if any(isinstance(x, (ast.Name, ast.Attribute)) and norm(x).split(".")[-1] in ("itemgetter", "attrgetter") for x in ast.walk(f.node)):
                    T().visit(f.node)

    def _split_parallel_assignments(self):
        """`a, b = e1, e2` with plain names on the left, where no name bound earlier in the list is read by a later
        expression (so not a swap), is written `a = e1; b = e2` (in place): the same bindings in the same order."""
        for mod in self.modules.values():
            for f in mod.funcs.values():
                for parent in ast.walk(f.node):
                    for fld in ("body", "orelse", "finalbody"):
                        lst = getattr(parent, fld, None)
                        if not (isinstance(lst, list) and lst and isinstance(lst[0], ast.stmt)):
                            continue
                        i = 0
                        while i < len(lst):
                            st = lst[i]
                            if isinstance(st, ast.Assign) and len(st.targets) == 1 and isinstance(st.targets[0], ast.Tuple) and isinstance(st.value, ast.Tuple) and len(st.targets[0].elts) == len(st.value.elts) and all(isinstance(t, ast.Name) for t in st.targets[0].elts) and not any(isinstance(v, ast.Starred) for v in st.value.elts):
                                names = [t.id for t in st.targets[0].elts]
                                safe = len(set(names)) == len(names)
                                for j, v in enumerate(st.value.elts):
                                    reads = {x.id for x in ast.walk(v) if isinstance(x, ast.Name)}
                                    if reads & set(names[:j]):
                                        safe = False
                                    if any(isinstance(x, (ast.Call, ast.NamedExpr, ast.Yield, ast.Await)) for x in ast.walk(v)) and j > 0 and False:
                                        safe = False
                                if safe:
                                    new = [ast.copy_location(ast.Assign(targets=[t], value=v, lineno=st.lineno), st) for t, v in zip(st.targets[0].elts, st.value.elts)]
                                    lst[i : i + 1] = new
                                    i += len(new)
                                    continue
                            i += 1

    def _running_extrema(self):
        """`x = max(x, v)` (x a name or a pure access path, v a pure expression) is written `if x < v: x = v`, and
        `x = min(x, v)` is written `if x > v: x = v` (in place): max / min return their first argument on a tie, as the
        guarded assignment keeps x."""

        def pure_path(e):
            while isinstance(e, (ast.Attribute, ast.Subscript)):
                if isinstance(e, ast.Subscript) and not all(isinstance(x, (ast.Constant, ast.Name, ast.Attribute, ast.Load)) for x in ast.walk(e.slice)):
                    return False
                e = e.value
            return isinstance(e, ast.Name)

        def pure_value(e):
            for x in ast.walk(e):
                if isinstance(x, ast.Call) and not (isinstance(x.func, ast.Name) and x.func.id in ("float", "int", "len", "abs", "round")):
                    return False
                if isinstance(x, (ast.NamedExpr, ast.Await, ast.Yield, ast.YieldFrom, ast.Lambda, ast.ListComp, ast.GeneratorExp, ast.DictComp, ast.SetComp)):
                    return False
            return True

        for mod in self.modules.values():
            for f in mod.funcs.values():
                if not any(isinstance(x, ast.Call) and isinstance(x.func, ast.Name) and x.func.id in ("max", "min") for x in ast.walk(f.node)):
                    continue
                for parent in ast.walk(f.node):
                    for fld in ("body", "orelse", "finalbody"):
                        lst = getattr(parent, fld, None)
                        if not (isinstance(lst, list) and lst and isinstance(lst[0], ast.stmt)):
                            continue
                        for i, st in enumerate(lst):
                            if isinstance(st, ast.Assign) and len(st.targets) == 1 and pure_path(st.targets[0]) and isinstance(st.value, ast.Call) and isinstance(st.value.func, ast.Name) and st.value.func.id in ("max", "min") and len(st.value.args) == 2 and not st.value.keywords:
                                a0, v = st.value.args
                                if norm(a0) == norm(st.targets[0]) and pure_value(v) and norm(st.targets[0]) not in norm(v):
                                    import copy as _copy

                                    left = _copy.deepcopy(st.targets[0])
                                    for x in ast.walk(left):
                                        if isinstance(x, (ast.Name, ast.Attribute, ast.Subscript)):
                                            x.ctx = ast.Load()
                                    op = ast.Lt() if st.value.func.id == "max" else ast.Gt()
                                    test = ast.Compare(left=left, ops=[op], comparators=[_copy.deepcopy(v)])
                                    new = ast.If(test=test, body=[ast.Assign(targets=[st.targets[0]], value=v, lineno=st.lineno)], orelse=[])
                                    lst[i] = ast.fix_missing_locations(ast.copy_location(new, st))

    def _augment_assignments(self):
        """`x = x + e` (also - * / //, x a name or a pure access path, e not a container display) is written `x += e`
        (in place): one spelling for an update of a running value.  For the immutable values such statements are used
        with (numbers, strings) the two are the same statement."""

        def pure(e):
            while isinstance(e, (ast.Attribute, ast.Subscript)):
                if isinstance(e, ast.Subscript) and not isinstance(e.slice, (ast.Constant, ast.Name)):
                    return False
                e = e.value
            return isinstance(e, ast.Name)

        for mod in self.modules.values():
            for f in mod.funcs.values():
                for parent in ast.walk(f.node):
                    for fld in ("body", "orelse", "finalbody"):
                        lst = getattr(parent, fld, None)
                        if not (isinstance(lst, list) and lst and isinstance(lst[0], ast.stmt)):
                            continue
                        for i, st in enumerate(lst):
                            if isinstance(st, ast.Assign) and len(st.targets) == 1 and pure(st.targets[0]) and isinstance(st.value, ast.BinOp) and isinstance(st.value.op, (ast.Add, ast.Sub, ast.Mult, ast.Div, ast.FloorDiv)):
                                v = st.value
                                if norm(v.left) == norm(st.targets[0]) and not isinstance(v.right, (ast.List, ast.Tuple, ast.Set, ast.Dict, ast.ListComp, ast.SetComp, ast.DictComp, ast.GeneratorExp)):
                                    lst[i] = ast.copy_location(ast.AugAssign(target=st.targets[0], op=v.op, value=v.right), st)

    def _push_negations(self):
        """Negations are pushed inward (in place): `not (a < b)` is written `a >= b` (likewise == / !=, is / is not, in / not
        in, and the other order comparisons — the values compared in this program are totally ordered: integers, strings,
        tuples of them, and floats that are quotients of integers), `not (A and B)` is written `not A or not B` (same
        evaluation order and short-circuit), and a comparison with the constant on the left is mirrored
        (`60000 < n` reads `n > 60000`)."""
        neg = {ast.Lt: ast.GtE, ast.LtE: ast.Gt, ast.Gt: ast.LtE, ast.GtE: ast.Lt, ast.Eq: ast.NotEq, ast.NotEq: ast.Eq, ast.Is: ast.IsNot, ast.IsNot: ast.Is, ast.In: ast.NotIn, ast.NotIn: ast.In}
        mirror = {ast.Lt: ast.Gt, ast.LtE: ast.GtE, ast.Gt: ast.Lt, ast.GtE: ast.LtE, ast.Eq: ast.Eq, ast.NotEq: ast.NotEq, ast.Is: ast.Is, ast.IsNot: ast.IsNot}

        def negate(e):
            if isinstance(e, ast.Compare) and len(e.ops) == 1 and type(e.ops[0]) in neg:
                return ast.copy_location(ast.Compare(left=e.left, ops=[neg[type(e.ops[0])]()], comparators=e.comparators), e)
            if isinstance(e, ast.BoolOp):
                return ast.copy_location(ast.BoolOp(op=ast.Or() if isinstance(e.op, ast.And) else ast.And(), values=[negate(v) for v in e.values]), e)
            if isinstance(e, ast.UnaryOp) and isinstance(e.op, ast.Not) and isinstance(e.operand, (ast.Compare, ast.BoolOp)):
                return e.operand
            return ast.copy_location(ast.UnaryOp(op=ast.Not(), operand=e), e)

        class T(ast.NodeTransformer):
            def visit_Subscript(self, n):
                self.generic_visit(n)
                # X[len(X) - 1] is X[-1] (the same element, the same IndexError on an empty X); X[a:len(X)] is X[a:]
                sl = n.slice
                if isinstance(sl, ast.BinOp) and isinstance(sl.op, ast.Sub) and isinstance(sl.right, ast.Constant) and sl.right.value == 1 and isinstance(sl.left, ast.Call) and isinstance(sl.left.func, ast.Name) and sl.left.func.id == "len" and len(sl.left.args) == 1 and norm(sl.left.args[0]) == norm(n.value) and all(isinstance(x, (ast.Name, ast.Attribute, ast.Load)) for x in ast.walk(n.value)):
                    n.slice = ast.copy_location(ast.UnaryOp(op=ast.USub(), operand=ast.Constant(value=1)), sl)
                elif isinstance(sl, ast.Slice) and sl.step is None and isinstance(sl.upper, ast.Call) and isinstance(sl.upper.func, ast.Name) and sl.upper.func.id == "len" and len(sl.upper.args) == 1 and norm(sl.upper.args[0]) == norm(n.value) and all(isinstance(x, (ast.Name, ast.Attribute, ast.Load)) for x in ast.walk(n.value)):
                    sl.upper = None
                return n

            def visit_UnaryOp(self, n):
                self.generic_visit(n)
                if isinstance(n.op, ast.Not) and (isinstance(n.operand, ast.BoolOp) or (isinstance(n.operand, ast.Compare) and len(n.operand.ops) == 1 and type(n.operand.ops[0]) in neg)):
                    return negate(n.operand)
                return n

            def visit_Compare(self, n):
                self.generic_visit(n)
                lit_left = isinstance(n.left, ast.Constant) or (isinstance(n.left, ast.Attribute) and norm(n.left) in ("sys.stdout", "sys.stderr", "sys.stdin") and not isinstance(n.comparators[0], ast.Attribute)) or (isinstance(n.left, (ast.List, ast.Tuple, ast.Dict, ast.Set)) and not (getattr(n.left, "elts", None) or getattr(n.left, "keys", None))) or (isinstance(n.left, ast.UnaryOp) and isinstance(n.left.op, ast.USub) and isinstance(n.left.operand, ast.Constant))
                lit_right = isinstance(n.comparators[0], ast.Constant) or (isinstance(n.comparators[0], (ast.List, ast.Tuple, ast.Dict, ast.Set)) and not (getattr(n.comparators[0], "elts", None) or getattr(n.comparators[0], "keys", None)))
                if len(n.ops) == 1 and type(n.ops[0]) in mirror and lit_left and not lit_right:
                    return ast.copy_location(ast.Compare(left=n.comparators[0], ops=[mirror[type(n.ops[0])]()], comparators=[n.left]), n)
                return n

        for mod in self.modules.values():
            for f in mod.funcs.values():
                if f.parent is not None:
                    continue  # nested functions are rewritten with their parent
                if any(isinstance(x, ast.UnaryOp) and isinstance(x.op, ast.Not) or isinstance(x, ast.Compare) and isinstance(x.left, (ast.Constant, ast.List, ast.Tuple, ast.Dict, ast.Set, ast.UnaryOp, ast.Attribute)) or (isinstance(x, ast.Call) and isinstance(x.func, ast.Name) and x.func.id == "len") for x in ast.walk(f.node)):
                    for i, st in enumerate(f.node.body):
                        f.node.body[i] = T().visit(st)
                    ast.fix_missing_locations(f.node)

    def _keyerror_tries(self):
        """`try: x = D[K]  except KeyError: A  else: B` over a local plain dict D (bound to `{}` / `dict()` in the function)
        and a pure key K is written `if K not in D: A  else: x = D[K]; B` (in place): the membership test it abbreviates."""
        for mod in self.modules.values():
            for f in mod.funcs.values():
                if not any(isinstance(x, ast.Try) for x in ast.walk(f.node)):
                    continue
                plain = set()
                for st in walk_stmts(f.node.body):
                    if isinstance(st, ast.Assign) and len(st.targets) == 1 and isinstance(st.targets[0], ast.Name):
                        v = st.value
                        if (isinstance(v, ast.Dict) and not v.keys) or (isinstance(v, ast.Call) and isinstance(v.func, ast.Name) and v.func.id == "dict" and not v.args and not v.keywords):
                            plain.add(st.targets[0].id)
                        else:
                            plain.discard(st.targets[0].id) if st.targets[0].id in plain else None
                if not plain:
                    continue
                for parent in ast.walk(f.node):
                    for fld in ("body", "orelse", "finalbody"):
                        lst = getattr(parent, fld, None)
                        if not (isinstance(lst, list) and lst and isinstance(lst[0], ast.stmt)):
                            continue
                        for i, st in enumerate(lst):
                            if not (isinstance(st, ast.Try) and len(st.body) == 1 and len(st.handlers) == 1 and not st.finalbody):
                                continue
                            a, h = st.body[0], st.handlers[0]
                            bare = isinstance(a, ast.Expr) and isinstance(a.value, ast.Subscript) and isinstance(a.value.value, ast.Name) and a.value.value.id in plain  # `try: D[K]` as a membership probe
                            if not bare and not (isinstance(a, ast.Assign) and len(a.targets) == 1 and isinstance(a.targets[0], ast.Name) and isinstance(a.value, ast.Subscript) and isinstance(a.value.value, ast.Name) and a.value.value.id in plain):
                                continue
                            if not (isinstance(h.type, ast.Name) and h.type.id == "KeyError" and (h.name is None or not any(isinstance(x, ast.Name) and x.id == h.name for b in h.body for x in ast.walk(b)))):
                                continue
                            key = a.value.slice
                            if not all(isinstance(x, (ast.Name, ast.Attribute, ast.Constant, ast.Load, ast.Subscript, ast.Tuple)) for x in ast.walk(key)):
                                continue
                            test = ast.Compare(left=key, ops=[ast.NotIn()], comparators=[ast.Name(id=a.value.value.id, ctx=ast.Load())])
                            lst[i] = ast.fix_missing_locations(ast.copy_location(ast.If(test=test, body=h.body, orelse=([] if bare else [a]) + st.orelse), st))

    def _get_is_none(self):
        """`D.get(K) is None` / `D.get(K) is not None` over a local plain dict D (bound to `{}` / `dict()` in the function,
        never stored a literal None) and a pure key K is written `K not in D` / `K in D` (in place)."""
        for mod in self.modules.values():
            for f in mod.funcs.values():
                if not any(isinstance(x, ast.Attribute) and x.attr == "get" for x in ast.walk(f.node)):
                    continue
                plain = set()
                for st in walk_stmts(f.node.body):
                    if isinstance(st, ast.Assign) and len(st.targets) == 1 and isinstance(st.targets[0], ast.Name):
                        v = st.value
                        if (isinstance(v, ast.Dict) and not v.keys) or (isinstance(v, ast.Call) and isinstance(v.func, ast.Name) and v.func.id == "dict" and not v.args and not v.keywords):
                            plain.add(st.targets[0].id)
                        elif st.targets[0].id in plain:
                            plain.discard(st.targets[0].id)
                    if isinstance(st, ast.Assign) and isinstance(st.targets[0], ast.Subscript) and isinstance(st.targets[0].value, ast.Name):
                        v_ = st.value
                        none_names = {x.targets[0].id for x in walk_stmts(f.node.body) if isinstance(x, ast.Assign) and len(x.targets) == 1 and isinstance(x.targets[0], ast.Name) and isinstance(x.value, ast.Constant) and x.value.value is None}
                        if (isinstance(v_, ast.Constant) and v_.value is None) or (isinstance(v_, ast.Name) and v_.id in none_names) or isinstance(v_, ast.IfExp):
                            plain.discard(st.targets[0].value.id)  # a None may be stored: `D.get(k) is None` is then not `k not in D`
                if not plain:
                    continue

                class T(ast.NodeTransformer):
                    def visit_Compare(self, c):
                        self.generic_visit(c)
                        if len(c.ops) == 1 and isinstance(c.ops[0], (ast.Is, ast.IsNot)) and isinstance(c.comparators[0], ast.Constant) and c.comparators[0].value is None:
                            g = c.left
                            if isinstance(g, ast.Call) and isinstance(g.func, ast.Attribute) and g.func.attr == "get" and isinstance(g.func.value, ast.Name) and g.func.value.id in plain and not g.keywords and (len(g.args) == 1 or (len(g.args) == 2 and isinstance(g.args[1], ast.Constant) and g.args[1].value is None)):
                                key = g.args[0]
                                if all(isinstance(x, (ast.Name, ast.Attribute, ast.Constant, ast.Load, ast.Subscript, ast.Tuple)) for x in ast.walk(key)):
                                    op = ast.NotIn() if isinstance(c.ops[0], ast.Is) else ast.In()
                                    return ast.copy_location(ast.Compare(left=key, ops=[op], comparators=[ast.Name(id=g.func.value.id, ctx=ast.Load())]), c)
                        return c

                T().visit(f.node)
                ast.fix_missing_locations(f.node)

    def _scalarise_records(self):
        """Scalar replacement of local records.  A local name that is only ever bound to a record of one fixed shape — a
        dict display with constant string keys (`totals = {"next_bo": 0, "bubbles": 0}`) or an instance of a plain program
        dataclass without methods (`tally = _Tally(next_bo=bo_start)`) — and only ever used through its fields
        (`totals["bubbles"]`, `tally.next_bo`, read, stored or augmented; never passed, returned, iterated, aliased or
        touched by a nested function) is replaced by one local variable per field (in place).  A group of running totals
        kept in a private record then reads like the separate counters it stands for."""

        def dataclass_fields(cnode):
            if not any(norm(d).split("(")[0] in ("dataclass", "dataclasses.dataclass") for d in cnode.decorator_list):
                return None
            if cnode.bases or cnode.keywords:
                return None
            fields = []
            for st in cnode.body:
                if isinstance(st, ast.Expr) and isinstance(st.value, ast.Constant) and isinstance(st.value.value, str):
                    continue
                if isinstance(st, ast.Pass):
                    continue
                if not (isinstance(st, ast.AnnAssign) and isinstance(st.target, ast.Name)):
                    return None
                d = st.value
                if isinstance(d, ast.Call) and norm(d.func) in ("field", "dataclasses.field"):
                    kw = {k.arg: k.value for k in d.keywords}
                    if set(kw) == {"default"}:
                        d = kw["default"]
                    elif set(kw) == {"default_factory"} and isinstance(kw["default_factory"], ast.Name) and kw["default_factory"].id in ("list", "dict", "set"):
                        d = ast.Call(func=ast.Name(id=kw["default_factory"].id, ctx=ast.Load()), args=[], keywords=[])
                    else:
                        return None
                elif d is not None and not (isinstance(d, ast.Constant) or (isinstance(d, ast.UnaryOp) and isinstance(d.operand, ast.Constant))):
                    return None
                fields.append((st.target.id, d))
            return fields or None

        def shape_of(f, value):
            """[(field, expression)] of a record construction, or None."""
            if isinstance(value, ast.Dict):
                if value.keys and all(isinstance(k, ast.Constant) and isinstance(k.value, str) for k in value.keys) and len({k.value for k in value.keys}) == len(value.keys):
                    return ("dict",), [(k.value, v) for k, v in zip(value.keys, value.values)]
                return None
            if isinstance(value, ast.Call) and isinstance(value.func, ast.Name):
                c = self.class_by_dotted(f, value.func.id)
                if c is None:
                    return None
                fields = dataclass_fields(self.modules[c[0]].classes[c[1]])
                if fields is None or any(isinstance(a, ast.Starred) for a in value.args) or any(k.arg is None for k in value.keywords) or len(value.args) > len(fields):
                    return None
                given = {}
                for (name, _d), a in zip(fields, value.args):
                    given[name] = a
                for k in value.keywords:
                    if k.arg in given or k.arg not in dict(fields):
                        return None
                    given[k.arg] = k.value
                out = []
                for name, d in fields:
                    e = given.get(name, d)
                    if e is None:
                        return None
                    out.append((name, e))
                return ("class",) + c, out
            return None

        def ident(var, field):
            return var + "__" + "".join(ch if (ch.isalnum() or ch == "_") else "_%02x" % ord(ch) for ch in field)

        for mod in self.modules.values():
            for f in mod.funcs.values():
                node = f.node
                binds = {}
                for st in walk_stmts(node.body):
                    if isinstance(st, ast.Assign) and len(st.targets) == 1 and isinstance(st.targets[0], ast.Name):
                        sh = shape_of(f, st.value)
                        binds.setdefault(st.targets[0].id, []).append((st, sh))
                cands = {}
                for var, lst in binds.items():
                    if var in f.params or any(sh is None for _st, sh in lst):
                        continue
                    kinds = {sh[0] for _st, sh in lst}
                    keys = {tuple(k for k, _e in sh[1]) for _st, sh in lst}
                    if len(kinds) == 1 and len(keys) == 1:
                        cands[var] = (next(iter(kinds)), next(iter(keys)), {id(st): sh[1] for st, sh in lst})
                if not cands:
                    continue
                parents = {}
                for x in ast.walk(node):
                    for c in ast.iter_child_nodes(x):
                        parents[id(c)] = x
                nested = set()
                for x in ast.walk(node):
                    if x is not node and isinstance(x, (ast.FunctionDef, ast.AsyncFunctionDef, ast.Lambda, ast.ClassDef)):
                        nested |= {n.id for n in ast.walk(x) if isinstance(n, ast.Name)}
                all_names = {n.id for n in ast.walk(node) if isinstance(n, ast.Name)} | set(f.params)
                for var in list(cands):
                    kind, keys, sites = cands[var]
                    ok = var not in nested and not any(ident(var, k) in all_names for k in keys)
                    for n in ast.walk(node):
                        if not ok:
                            break
                        if isinstance(n, ast.Name) and n.id == var:
                            par = parents.get(id(n))
                            if isinstance(par, ast.Assign) and id(par) in sites and par.targets[0] is n:
                                continue
                            if kind[0] == "dict" and isinstance(par, ast.Subscript) and par.value is n and isinstance(par.slice, ast.Constant) and par.slice.value in keys and not isinstance(par.ctx, ast.Del):
                                continue
                            if kind[0] == "class" and isinstance(par, ast.Attribute) and par.value is n and par.attr in keys and not isinstance(par.ctx, ast.Del):
                                continue
                            ok = False
                        elif isinstance(n, (ast.Global, ast.Nonlocal)) and var in n.names:
                            ok = False
                    if not ok:
                        del cands[var]
                if not cands:
                    continue

                class T(ast.NodeTransformer):
                    def visit_Subscript(self, n):
                        if isinstance(n.value, ast.Name) and n.value.id in cands and cands[n.value.id][0][0] == "dict":
                            return ast.copy_location(ast.Name(id=ident(n.value.id, n.slice.value), ctx=n.ctx), n)
                        return self.generic_visit(n)

                    def visit_Attribute(self, n):
                        if isinstance(n.value, ast.Name) and n.value.id in cands and cands[n.value.id][0][0] == "class":
                            return ast.copy_location(ast.Name(id=ident(n.value.id, n.attr), ctx=n.ctx), n)
                        return self.generic_visit(n)

                def block(stmts):
                    out = []
                    for st in stmts:
                        if isinstance(st, ast.Assign) and len(st.targets) == 1 and isinstance(st.targets[0], ast.Name) and st.targets[0].id in cands and id(st) in cands[st.targets[0].id][2]:
                            var = st.targets[0].id
                            for k, e in cands[var][2][id(st)]:
                                e = T().visit(copy.deepcopy(e))
                                out.append(ast.copy_location(ast.Assign(targets=[ast.Name(id=ident(var, k), ctx=ast.Store())], value=e), st))
                            continue
                        for fld in ("body", "orelse", "finalbody"):
                            sub = getattr(st, fld, None)
                            if isinstance(sub, list) and sub and isinstance(sub[0], ast.stmt):
                                setattr(st, fld, block(sub))
                        for h in getattr(st, "handlers", []) or []:
                            h.body = block(h.body)
                        for c in getattr(st, "cases", []) or []:
                            c.body = block(c.body)
                        out.append(st)
                    return out

                node.body = block(node.body)
                for i, st in enumerate(node.body):
                    if not isinstance(st, (ast.FunctionDef, ast.AsyncFunctionDef, ast.ClassDef)):
                        node.body[i] = T().visit(st)
                ast.fix_missing_locations(node)

    def _truthy_defaults(self):
        """`x if x else d` and `d if not x else x` over a pure access path x are written `x or d` (in place)."""

        def pure(e):
            while isinstance(e, (ast.Attribute, ast.Subscript)):
                if isinstance(e, ast.Subscript) and not isinstance(e.slice, (ast.Constant, ast.Name)):
                    return False
                e = e.value
            return isinstance(e, ast.Name)

        class T(ast.NodeTransformer):
            def visit_IfExp(self, n):
                self.generic_visit(n)
                t, b, o = n.test, n.body, n.orelse
                if pure(t) and norm(t) == norm(b):
                    return ast.copy_location(ast.BoolOp(op=ast.Or(), values=[b, o]), n)
                if isinstance(t, ast.UnaryOp) and isinstance(t.op, ast.Not) and pure(t.operand) and norm(t.operand) == norm(o):
                    return ast.copy_location(ast.BoolOp(op=ast.Or(), values=[o, b]), n)
                return n

        for m_ in self.modules.values():
            for f in m_.funcs.values():
                if any(isinstance(x, ast.IfExp) for x in ast.walk(f.node)):
                    T().visit(f.node)
                    ast.fix_missing_locations(f.node)

    def _positional_calls(self):
        """Calls of program functions are written in one canonical way: every leading parameter that is supplied — by
        position or by keyword — becomes a positional argument (`search(intervals=xs, query_start=a, ...)` reads like
        `search(xs, a, ...)`); keywords that cannot be moved (a gap before them) stay keywords."""
        for mod in self.modules.values():
            for f in mod.funcs.values():
                for call in [c for c in walk_own(f.node) if isinstance(c, ast.Call)]:
                    if not call.keywords or any(isinstance(a, ast.Starred) for a in call.args) or any(k.arg is None for k in call.keywords):
                        continue
                    sig = self.signature_of(f, call)
                    if sig is None:
                        continue
                    _callee, params = sig
                    kw = {k.arg: k for k in call.keywords}
                    args = list(call.args)
                    i = len(args)
                    while i < len(params) and params[i] in kw:
                        args.append(kw.pop(params[i]).value)
                        i += 1
                    if len(args) != len(call.args):
                        call.args = args
                        call.keywords = [k for k in call.keywords if k.arg in kw]

    def _specialise_constant_params(self):
        """(to a fixed point, at most three sweeps: a constant that reaches one function may fold a local there that is
        the argument of the next)"""
        for _ in range(3):
            if not self._specialise_constant_params_once():
                break

    def _specialise_constant_params_once(self):
        """Closed-world constant propagation into parameters: when every call of a program function (there is at least one)
        binds a parameter to the same literal — explicitly, or by leaving it to a default of that value — and the
        function never rebinds it, reads of the parameter are replaced by the literal (`check_path=True` everywhere,
        `batch_size=1000`, `encoding="utf-8"`).  Conditions on it then fold like any other constant test."""
        sites = {}
        changed_any = False
        # names (and attribute names) that are read somewhere other than as the callee of a call
        value_names = set()
        for m2 in self.modules.values():
            callee_nodes = {id(c.func) for c in ast.walk(m2.tree) if isinstance(c, ast.Call)}
            for x in ast.walk(m2.tree):
                if isinstance(x, ast.Name) and isinstance(x.ctx, ast.Load) and id(x) not in callee_nodes:
                    value_names.add(x.id)
                elif isinstance(x, ast.Attribute) and isinstance(x.ctx, ast.Load) and id(x) not in callee_nodes:
                    value_names.add(x.attr)
        for mod in self.modules.values():
            for f in mod.funcs.values():
                for call in [c for c in walk_own(f.node) if isinstance(c, ast.Call)]:
                    callee = self.resolve_call(f, call)
                    if callee is not None:
                        sites.setdefault((callee.module.name, callee.qualname), []).append((f, call))
        for mod in self.modules.values():
            for f in mod.funcs.values():
                calls = sites.get((mod.name, f.qualname), [])
                if not calls or f.name.startswith("__"):
                    continue
                # a function that is also used as a value (callback, Process target) has unknown callers
                if f.name in value_names:
                    continue
                stored = {x.id for x in ast.walk(f.node) if isinstance(x, ast.Name) and isinstance(x.ctx, (ast.Store, ast.Del))}
                values = {}
                ok = True
                for cf, call in calls:
                    ba = self.bound_args(cf, call)
                    if ba is None and not call.args and len(call.keywords) == 1 and call.keywords[0].arg is None and "add_arguments" in cf.module.funcs:
                        # `run(**vars(args))` in a command's main(): the parameters that are destinations of an argparse
                        # option get whatever the user types; every other parameter keeps its signature default
                        dests = set()
                        for c_ in walk_own(cf.module.funcs["add_arguments"].node):
                            if isinstance(c_, ast.Call) and c_.args and all(isinstance(a_, ast.Constant) and isinstance(a_.value, str) for a_ in c_.args):
                                kw_ = {k.arg: k.value for k in c_.keywords}
                                if isinstance(kw_.get("dest"), ast.Constant):
                                    dests.add(kw_["dest"].value)
                                else:
                                    longs = [a_.value for a_ in c_.args if a_.value.startswith("--")] or [a_.value for a_ in c_.args if not a_.value.startswith("-")]
                                    dests |= {l_.lstrip("-").replace("-", "_") for l_ in longs[:1]}
                        a_ = f.node.args
                        pos_ = a_.posonlyargs + a_.args
                        dflt = {p2.arg: d2 for p2, d2 in list(zip(pos_[len(pos_) - len(a_.defaults):], a_.defaults)) + [(p2, d2) for p2, d2 in zip(a_.kwonlyargs, a_.kw_defaults) if d2 is not None]}
                        if dests:
                            ba = {p2: (ast.Name(id="<command line>", ctx=ast.Load()) if p2 in dests else dflt.get(p2)) for p2 in f.params}
                    if ba is None:
                        ok = False
                        break
                    for p_ in f.params:
                        v = ba.get(p_)
                        values.setdefault(p_, []).append(v)
                if not ok:
                    continue
                subst = {}
                for p_, vs in values.items():
                    if p_ in ("self", "cls") or p_ in stored or any(v is None for v in vs):
                        continue
                    lits = set()
                    for (cf_, _call), v in zip(calls, vs):
                        if isinstance(v, ast.Name) and v.id not in cf_.params:
                            # a local of the caller bound exactly once, to a literal (`cache = None` after folding)
                            ds_ = [st_ for st_ in ast.walk(cf_.node) if isinstance(st_, (ast.Assign, ast.AugAssign, ast.For, ast.With, ast.NamedExpr, ast.AnnAssign)) and any(isinstance(x_, ast.Name) and x_.id == v.id and isinstance(x_.ctx, (ast.Store, ast.Del)) for x_ in ast.walk(st_))]
                            if len(ds_) == 1 and isinstance(ds_[0], ast.Assign) and len(ds_[0].targets) == 1 and isinstance(ds_[0].targets[0], ast.Name) and isinstance(ds_[0].value, ast.Constant):
                                v = ds_[0].value
                        if isinstance(v, ast.Constant) and (v.value is None or isinstance(v.value, (bool, int, float, str, bytes))):
                            lits.add((type(v.value).__name__, v.value))
                        else:
                            lits.add(("?", id(v)))
                    if len(lits) == 1 and next(iter(lits))[0] != "?":
                        subst[p_] = next(iter(lits))[1]
                read_ = {x.id for st_ in f.node.body if not isinstance(st_, (ast.FunctionDef, ast.AsyncFunctionDef, ast.ClassDef)) for x in ast.walk(st_) if isinstance(x, ast.Name) and isinstance(x.ctx, ast.Load)}
                subst = {k_: v_ for k_, v_ in subst.items() if k_ in read_}
                if not subst:
                    continue

                class T(ast.NodeTransformer):
                    def visit_Name(self, node):
                        if isinstance(node.ctx, ast.Load) and node.id in subst:
                            return ast.copy_location(ast.Constant(value=subst[node.id]), node)
                        return node

                for i, st in enumerate(f.node.body):
                    if not isinstance(st, (ast.FunctionDef, ast.AsyncFunctionDef, ast.ClassDef)):
                        f.node.body[i] = T().visit(st)
                ast.fix_missing_locations(f.node)
                folded = fold_consts(f)
                if folded is not f:
                    f.node.body = folded.node.body
                changed_any = True
        return changed_any

    # ----------------------------------------------------------------------------------------
    def _fold_named_constants(self):
        """Reads of *simple named constants* — a module-level name bound exactly once, at module level, to a str / int /
        float / bytes literal (`PATH_COLUMN = 5`, `TAG_SN = "SN"`, `INDEX_SUFFIX = ".gvi"`), also through
        `from mod import NAME` and `alias.NAME` — are replaced by the literal inside every function body, so that a rule
        sees `fields[5]` whether or not the 5 has been given a name.  Names that a function rebinds are left alone there."""
        simple = {}
        for mname, mod in self.modules.items():
            counts = {}
            for st in ast.walk(mod.tree):
                for t in ([st.target] if isinstance(st, (ast.AugAssign, ast.AnnAssign, ast.For)) else (st.targets if isinstance(st, ast.Assign) else [])):
                    for x in ast.walk(t):
                        if isinstance(x, ast.Name) and isinstance(x.ctx, (ast.Store, ast.Del)):
                            counts[x.id] = counts.get(x.id, 0) + 1
            table = {}
            for name, e in mod.consts.items():
                v = e
                if isinstance(v, ast.UnaryOp) and isinstance(v.op, ast.USub) and isinstance(v.operand, ast.Constant) and isinstance(v.operand.value, (int, float)):
                    v = ast.Constant(value=-v.operand.value)
                if isinstance(v, ast.Constant) and (isinstance(v.value, (str, int, float, bytes, bool)) or v.value is None) and counts.get(name, 0) == 1:
                    table[name] = v.value
                elif isinstance(v, ast.Tuple) and v.elts and all(isinstance(e_, ast.Constant) and (isinstance(e_.value, (str, int, float, bytes, bool)) or e_.value is None) or (isinstance(e_, ast.UnaryOp) and isinstance(e_.op, ast.USub) and isinstance(e_.operand, ast.Constant) and isinstance(e_.operand.value, (int, float))) for e_ in v.elts) and counts.get(name, 0) == 1 and name.isupper():
                    table[name] = _TupleLit(tuple(-e_.operand.value if isinstance(e_, ast.UnaryOp) else e_.value for e_ in v.elts))  # NOT_FOUND = (-1, -1)
            # constants spelled as a sum of literals and earlier constants (`FMT = "bubble" + SEP + "%d"`)
            def _val(e_):
                if isinstance(e_, ast.Constant) and isinstance(e_.value, (str, int)) and not isinstance(e_.value, bool):
                    return e_.value
                if isinstance(e_, ast.Name) and e_.id in table and isinstance(table[e_.id], (str, int)) and not isinstance(table[e_.id], bool):
                    return table[e_.id]
                if isinstance(e_, ast.BinOp) and isinstance(e_.op, ast.Add):
                    l_, r_ = _val(e_.left), _val(e_.right)
                    if l_ is not None and r_ is not None and type(l_) is type(r_):
                        return l_ + r_
                return None

            for _ in range(3):
                for name, e in mod.consts.items():
                    if name not in table and isinstance(e, ast.BinOp) and counts.get(name, 0) == 1:
                        v_ = _val(e)
                        if v_ is not None:
                            table[name] = v_
            # NAME = bytes.fromhex("1f8b"): the bytes literal it spells
            for name, e in mod.consts.items():
                if name not in table and counts.get(name, 0) == 1 and isinstance(e, ast.Call) and norm(e.func) == "bytes.fromhex" and len(e.args) == 1 and isinstance(e.args[0], ast.Constant) and isinstance(e.args[0].value, str):
                    try:
                        table[name] = bytes.fromhex(e.args[0].value)
                    except ValueError:
                        pass
            simple[mname] = table
        for mname, mod in self.modules.items():
            visible = dict(simple[mname])
            dotted = {}
            for local, tgt in mod.imports.items():
                if tgt in self.modules:
                    for k, v in simple[tgt].items():
                        dotted[(local, k)] = v
                elif "." in tgt:
                    m_, n_ = tgt.rsplit(".", 1)
                    if m_ in self.modules and n_ in simple[m_] and local not in visible:
                        visible[local] = simple[m_][n_]
            if not visible and not dotted:
                continue
            # module-level tables that mention named constants (E_DIR = {("+", "+"): (END, START), ...})
            class T0(ast.NodeTransformer):
                def visit_Name(self, node):
                    if isinstance(node.ctx, ast.Load) and node.id in visible:
                        return ast.copy_location(_lit_node(visible[node.id]), node)
                    return node

                def visit_Attribute(self, node):
                    if isinstance(node.ctx, ast.Load) and isinstance(node.value, ast.Name) and (node.value.id, node.attr) in dotted:
                        return ast.copy_location(_lit_node(dotted[(node.value.id, node.attr)]), node)
                    return self.generic_visit(node)

            for st in mod.tree.body:
                if isinstance(st, ast.Assign) and len(st.targets) == 1 and isinstance(st.targets[0], ast.Name) and isinstance(st.value, (ast.Dict, ast.Tuple, ast.List, ast.Set)):
                    st.value = T0().visit(st.value)
                    ast.fix_missing_locations(st)
                    mod.consts[st.targets[0].id] = st.value
            for f in mod.funcs.values():
                shadow = {x.id for x in ast.walk(f.node) if isinstance(x, ast.Name) and isinstance(x.ctx, (ast.Store, ast.Del))} | set(f.params)
                if f.parent is not None:
                    shadow |= {x.id for x in ast.walk(f.parent.node) if isinstance(x, ast.Name) and isinstance(x.ctx, ast.Store)} | set(f.parent.params)

                class T(ast.NodeTransformer):
                    def visit_Name(self, node):
                        if isinstance(node.ctx, ast.Load) and node.id in visible and node.id not in shadow:
                            return ast.copy_location(_lit_node(visible[node.id]), node)
                        return node

                    def visit_Attribute(self, node):
                        if isinstance(node.ctx, ast.Load) and isinstance(node.value, ast.Name) and (node.value.id, node.attr) in dotted and node.value.id not in shadow:
                            return ast.copy_location(_lit_node(dotted[(node.value.id, node.attr)]), node)
                        return self.generic_visit(node)

                for i, st in enumerate(f.node.body):
                    if not isinstance(st, (ast.FunctionDef, ast.AsyncFunctionDef, ast.ClassDef)):
                        f.node.body[i] = _FlattenFStrings().visit(T().visit(st))
                ast.fix_missing_locations(f.node)

    # -- lookup ------------------------------------------------------------------------------
    def module(self, name, rule="E1") -> Module:
        m = self.modules.get(name)
        if m is None:
            raise AnalysisError(rule, name, "module not found (anchor vanished)")
        return m

    def func(self, module, qualname, rule="E1") -> Func:
        m = self.module(module, rule)
        f = m.funcs.get(qualname)
        if f is None:
            raise AnalysisError(rule, f"{m.relpath}", f"function {qualname} not found (anchor vanished)")
        return f

    def find_func(self, module, qualname):
        m = self.modules.get(module)
        return m.funcs.get(qualname) if m else None

    def all_funcs(self):
        for m in self.modules.values():
            yield from m.funcs.values()

    def resolve_call(self, func: Func, call: ast.Call):
        """Resolve a call expression inside `func` to a Func of the program, or None."""
        return self.resolve_callable(func, call.func)

    def resolve_callable(self, func: Func, fn: ast.AST):
        mod = func.module
        if isinstance(fn, ast.Name):
            # nested function, module function, imported function
            f = func
            while f is not None:
                cand = mod.funcs.get(f.qualname + ".<locals>." + fn.id)
                if cand:
                    return cand
                f = f.parent
            if fn.id in mod.funcs:
                return mod.funcs[fn.id]
            tgt = mod.imports.get(fn.id)
            if tgt:
                return self._by_dotted(tgt)
            if fn.id in mod.classes:
                return mod.funcs.get(fn.id + ".__init__")
            return None
        if isinstance(fn, ast.Attribute):
            base = fn.value
            if isinstance(base, ast.Name):
                if base.id == "self" and func.cls:
                    return mod.funcs.get(func.cls + "." + fn.attr)
                tgt = mod.imports.get(base.id)
                if tgt and tgt in self.modules:
                    return self.modules[tgt].funcs.get(fn.attr)
                cls = self.local_class_of(func, base.id)
                if cls:
                    cm, cn = cls
                    return self.modules[cm].funcs.get(cn + "." + fn.attr)
            # unique method name across the program's classes
            idx = getattr(self, "_method_index", None)
            if idx is None:
                idx = {}
                for f in self.all_funcs():
                    if f.cls:
                        idx.setdefault(f.name, []).append(f)
                self._method_index = idx
            cands = idx.get(fn.attr, [])
            if len(cands) == 1:
                return cands[0]
        return None

    def _by_dotted(self, dotted):
        if "." not in dotted:
            return None
        m, n = dotted.rsplit(".", 1)
        mod = self.modules.get(m)
        if mod is None:
            return None
        if n in mod.funcs:
            return mod.funcs[n]
        if n in mod.classes:
            return mod.funcs.get(n + ".__init__")
        return None

    def class_by_dotted(self, func: Func, name: str):
        """(module, classname) for a class name visible in func's module."""
        mod = func.module
        if name in mod.classes:
            return (mod.name, name)
        tgt = mod.imports.get(name)
        if tgt and "." in tgt:
            m, n = tgt.rsplit(".", 1)
            if m in self.modules and n in self.modules[m].classes:
                return (m, n)
        return None

    def local_class_of(self, func: Func, var: str):
        """Class of a local variable assigned from a constructor call `var = Cls(...)`."""
        cache = func.__dict__.setdefault("_local_classes", None)
        if cache is None:
            cache = {}
            for n in ast.walk(func.node):
                if isinstance(n, ast.Assign) and len(n.targets) == 1:
                    t = n.targets[0]
                    if isinstance(t, ast.Name) and isinstance(n.value, ast.Call) and isinstance(n.value.func, ast.Name) and t.id not in cache:
                        c = self.class_by_dotted(func, n.value.func.id)
                        if c:
                            cache[t.id] = c
            func.__dict__["_local_classes"] = cache
        return cache.get(var)
        for n in ast.walk(func.node):
            if isinstance(n, ast.Assign) and len(n.targets) == 1:
                t = n.targets[0]
                if isinstance(t, ast.Name) and t.id == var and isinstance(n.value, ast.Call):
                    fn = n.value.func
                    if isinstance(fn, ast.Name):
                        c = self.class_by_dotted(func, fn.id)
                        if c:
                            return c
        return None

    def callers_of(self, target: Func):
        """(caller Func, Call node) for every resolved call of target."""
        if not hasattr(self, "_callers"):
            idx = {}
            for f in self.all_funcs():
                for n in walk_own(f.node):
                    if isinstance(n, ast.Call):
                        t = self.resolve_call(f, n)
                        if t is not None:
                            idx.setdefault((t.module.name, t.qualname), []).append((f, n))
            self._callers = idx
        return list(self._callers.get((target.module.name, target.qualname), []))

    def digest(self):
        import hashlib

        h = hashlib.sha256()
        for name in sorted(self.modules):
            h.update(name.encode())
            h.update(self.modules[name].source.encode())
        return h.hexdigest()[:16]


def walk_own(fnode):
    """ast.walk over a function body without descending into nested function/class definitions."""
    # pre-order, in source order (rules that speak of "the last assignment" rely on it)
    stack = list(reversed(list(ast.iter_child_nodes(fnode))))
    while stack:
        n = stack.pop()
        yield n
        if isinstance(n, (ast.FunctionDef, ast.AsyncFunctionDef, ast.ClassDef)):
            continue
        stack.extend(reversed(list(ast.iter_child_nodes(n))))


def walk_stmts(body):
    """All statements (recursively) in a statement list, not entering nested defs."""
    for st in body:
        yield st
        if isinstance(st, (ast.FunctionDef, ast.AsyncFunctionDef, ast.ClassDef)):
            continue
        for sub in ("body", "orelse", "finalbody"):
            yield from walk_stmts(getattr(st, sub, []) or [])
        for h in getattr(st, "handlers", []) or []:
            yield from walk_stmts(h.body)


def names_in(node):
    return {n.id for n in ast.walk(node) if isinstance(n, ast.Name)}


def is_call_to(node, *dotted):
    """True if node is a Call whose function text is one of `dotted` (e.g. 'sys.exit')."""
    return isinstance(node, ast.Call) and norm(node.func) in dotted


def const_value(node, default=None):
    if isinstance(node, ast.Constant):
        return node.value
    if isinstance(node, ast.UnaryOp) and isinstance(node.op, ast.USub) and isinstance(node.operand, ast.Constant):
        return -node.operand.value
    return default


def local_defs(func_node):
    """name -> list of value expressions assigned to that simple name anywhere in the function
    (tuple unpacking `a, b = X` contributes X[0], X[1] as synthetic subscripts)."""
    defs = {}
    for st in walk_own(func_node):
        if isinstance(st, ast.Assign) and len(st.targets) == 1:
            t = st.targets[0]
            if isinstance(t, ast.Name):
                defs.setdefault(t.id, []).append(st.value)
            elif isinstance(t, (ast.Tuple, ast.List)):
                vals = st.value.elts if isinstance(st.value, (ast.Tuple, ast.List)) and len(st.value.elts) == len(t.elts) else None
                for i, e in enumerate(t.elts):
                    if isinstance(e, ast.Name):
                        v = vals[i] if vals else ast.Subscript(value=st.value, slice=ast.Constant(value=i), ctx=ast.Load())
                        defs.setdefault(e.id, []).append(v)
        elif isinstance(st, (ast.AugAssign, ast.For)):
            tg = st.target
            for n in ast.walk(tg):
                if isinstance(n, ast.Name):
                    defs.setdefault(n.id, []).append(None)  # not a pure definition
    return defs


class _Subst(ast.NodeTransformer):
    def __init__(self, defs, depth, skip):
        self.defs, self.depth, self.skip = defs, depth, skip

    def visit_Name(self, node):
        if isinstance(node.ctx, ast.Load) and node.id in self.defs and node.id not in self.skip:
            d = self.defs[node.id]
            if len(d) == 1 and d[0] is not None and self.depth > 0:
                import copy

                return _Subst(self.defs, self.depth - 1, self.skip | {node.id}).visit(copy.deepcopy(d[0]))
        return node


def resolve_expr(func_node, expr, depth=4, defs=None):
    """`expr` with every single-assignment local name replaced by its definition (recursively): two code shapes
    that differ only by temporaries / renamed locals resolve to the same text.  Returns normalised text."""
    import copy

    defs = defs if defs is not None else local_defs(func_node)
    e = _Subst(defs, depth, frozenset()).visit(copy.deepcopy(expr))
    ast.fix_missing_locations(e)
    return ast.unparse(e)


def bool_table(expr, atom_texts):
    """Truth table of a boolean expression over the given atoms (normalised texts; !=/not in/is not are folded into
    negations of ==/in/is).  Returns {assignment tuple: bool} or None when the expression contains anything else."""
    import itertools

    from .paths import canon_test

    atoms = list(atom_texts)

    def ev(e, env):
        if isinstance(e, ast.UnaryOp) and isinstance(e.op, ast.Not):
            v = ev(e.operand, env)
            return None if v is None else (not v)
        if isinstance(e, ast.BoolOp):
            vals = [ev(v, env) for v in e.values]
            if any(v is None for v in vals):
                return None
            return all(vals) if isinstance(e.op, ast.And) else any(vals)
        t, pol = canon_test(e, True)
        if t in env:
            return env[t] == pol
        return None

    out = {}
    for combo in itertools.product((True, False), repeat=len(atoms)):
        v = ev(expr, dict(zip(atoms, combo)))
        if v is None:
            return None
        out[combo] = v
    return out


class _ParamSubst(ast.NodeTransformer):
    def __init__(self, mapping):
        self.mapping = mapping

    def visit_Name(self, node):
        if isinstance(node.ctx, ast.Load) and node.id in self.mapping:
            import copy

            return copy.deepcopy(self.mapping[node.id])
        return node


def is_static(func):
    return any(norm(d) == "staticmethod" for d in func.node.decorator_list)


def inline_simple_calls(repo, func, node=None, depth=2):
    """Deep copy of `node` (default: the function's AST) in which every call of a program function whose body is a
    single `return <expr>` (after an optional docstring) is replaced by that expression with the parameters replaced
    by the argument expressions.  Arguments are substituted syntactically, so this is used for *analysis* of pure
    look-up helpers only (an argument evaluated twice makes no difference to the facts the rules extract)."""
    import copy

    root = copy.deepcopy(node if node is not None else func.node)

    class Inl(ast.NodeTransformer):
        def visit_Call(self, call):
            self.generic_visit(call)
            callee = repo.resolve_call(func, call)
            if callee is None or callee is func:
                return call
            body = [st for st in callee.node.body if not (isinstance(st, ast.Expr) and isinstance(st.value, ast.Constant))]
            if len(body) > 1 and callee.module is func.module and isinstance(body[-1], ast.Return) and body[-1].value is not None and all(isinstance(st, ast.Assign) and len(st.targets) == 1 and isinstance(st.targets[0], ast.Name) for st in body[:-1]):
                # pure temporaries followed by one return: the temporaries are substituted into the returned expression
                tnames = [st.targets[0].id for st in body[:-1]]
                if len(set(tnames)) == len(tnames) and not (set(tnames) & set(callee.params)):
                    tdefs = {}
                    for st in body[:-1]:
                        tdefs[st.targets[0].id] = [ast.parse(resolve_expr(None, st.value, defs=tdefs), mode="eval").body]
                    rv = ast.parse(resolve_expr(None, body[-1].value, defs=tdefs), mode="eval").body
                    body = [ast.copy_location(ast.Return(value=rv), body[-1])]
                    ast.fix_missing_locations(body[0])
            if len(body) != 1 or not isinstance(body[0], ast.Return) or body[0].value is None:
                return call
            params = callee.params[1:] if (callee.cls and isinstance(call.func, ast.Attribute) and not is_static(callee)) else callee.params
            if any(isinstance(a, ast.Starred) for a in call.args) or len(call.args) > len(params):
                return call
            mapping = {p_: a for p_, a in zip(params, call.args)}
            if callee.cls and isinstance(call.func, ast.Attribute) and callee.params and callee.params[0] == "self" and not is_static(callee):
                if not isinstance(call.func.value, (ast.Name, ast.Attribute)):
                    return call
                mapping["self"] = call.func.value
            for k in call.keywords:
                if k.arg is None:
                    return call
                mapping[k.arg] = k.value
            defaults = callee.node.args.defaults
            for p_, d in zip(reversed(callee.node.args.args), reversed(defaults)):
                mapping.setdefault(p_.arg, d)
            if any(p_ not in mapping for p_ in params):
                return call
            expr = _ParamSubst(mapping).visit(copy.deepcopy(body[0].value))
            return ast.copy_location(expr, call)

    for _ in range(depth):
        root = Inl().visit(root)
    ast.fix_missing_locations(root)
    return root


class _Rename(ast.NodeTransformer):
    def __init__(self, names, exprs):
        self.names, self.exprs = names, exprs

    def visit_Name(self, node):
        if node.id in self.names:
            return ast.copy_location(ast.Name(id=self.names[node.id], ctx=node.ctx), node)
        if isinstance(node.ctx, ast.Load) and node.id in self.exprs:
            import copy

            return copy.deepcopy(self.exprs[node.id])
        return node


class _NotInlinable(Exception):
    pass


def _contains_return(st):
    return any(isinstance(x, ast.Return) for x in ast.walk(st))


def _always_returns(stmts):
    if not stmts:
        return False
    last = stmts[-1]
    if isinstance(last, (ast.Return, ast.Raise)):
        return True
    if isinstance(last, ast.If):
        return _always_returns(last.body) and _always_returns(last.orelse)
    if isinstance(last, ast.With):
        return _always_returns(last.body)
    if isinstance(last, ast.Try):
        return _always_returns(last.body) and all(_always_returns(h.body) for h in last.handlers)
    return False


def returns_to_assign(stmts, make):
    """Statement list of a helper body in which every `return e` is replaced by make(e) (an assignment or a return
    in the caller); code after an `if` one of whose arms returns is moved into the other arm.  Raises _NotInlinable when a
    return sits inside a loop / try / with (its continuation cannot be expressed without a jump)."""
    import copy

    out = []
    for i, st in enumerate(stmts):
        if isinstance(st, ast.Return):
            out.append(ast.copy_location(make(st.value if st.value is not None else ast.Constant(value=None)), st))
            return out
        if isinstance(st, ast.If) and _contains_return(st):
            rest = stmts[i + 1 :]
            b = returns_to_assign(list(st.body) + ([] if _always_returns(st.body) else copy.deepcopy(rest)), make)
            o = returns_to_assign(list(st.orelse) + ([] if _always_returns(st.orelse) else copy.deepcopy(rest)), make)
            node = ast.copy_location(ast.If(test=st.test, body=b or [ast.Pass()], orelse=o), st)
            out.append(node)
            return out
        if isinstance(st, ast.With) and _contains_return(st) and (i == len(stmts) - 1 or _always_returns(st.body)):
            node = copy.copy(st)
            node.body = returns_to_assign(list(st.body) + ([] if _always_returns(st.body) else []), make)
            out.append(node)
            return out
        if isinstance(st, ast.Try) and _contains_return(st) and not any(_contains_return(x) for x in list(st.orelse) + list(st.finalbody)) and (i == len(stmts) - 1 or (_always_returns(st.body) and all(_always_returns(h.body) for h in st.handlers))):
            node = copy.copy(st)
            node.body = returns_to_assign(list(st.body), make)
            node.handlers = []
            for h in st.handlers:
                h2 = copy.copy(h)
                h2.body = returns_to_assign(list(h.body), make)
                node.handlers.append(h2)
            out.append(node)
            return out
        if _contains_return(st):
            raise _NotInlinable()
        out.append(st)
    # falling off the end returns None
    out.append(make(ast.Constant(value=None)))
    return out


def _closed_helper(callee, methods=False):
    """the function body reads only its parameters, its own locals and builtins (so it means the same in any module)"""
    import builtins

    if callee.cls is not None and not methods:
        return False
    if any(isinstance(x, ast.Call) and isinstance(x.func, ast.Name) and x.func.id in ("open", "print", "input", "exec", "eval") for x in ast.walk(callee.node)):
        return False  # talks to the outside world (the compression sniffer reads the file): a role of its own, kept as a call
    local = set(callee.params) | {x.id for x in ast.walk(callee.node) if isinstance(x, ast.Name) and isinstance(x.ctx, ast.Store)}
    for x in ast.walk(callee.node):
        if isinstance(x, ast.Name) and isinstance(x.ctx, ast.Load) and x.id not in local and not hasattr(builtins, x.id):
            return False
    return True


_BUILTIN_METHODS = set()
for _t in (list, dict, set, frozenset, str, bytes, tuple, int, float, object):
    _BUILTIN_METHODS |= set(dir(_t))
_BUILTIN_METHODS |= set(dir(__import__("io").TextIOWrapper)) | set(dir(__import__("collections").deque)) | set(dir(__import__("collections").Counter)) | {"put", "get", "join", "start", "terminate", "acquire", "release", "match", "fullmatch", "search", "group", "groups", "wait", "send", "recv", "poll"}


def inline_tail_calls(repo, func, depth=2, keep=None):
    """Copy of the function AST in which a statement `return helper(args)` / `x = helper(args)` / `x, y = helper(args)`
    (in any block of the function), where helper is a function of the same module with a multi-statement body, is
    replaced by the helper's body: parameters bound to simple names are renamed to those names, parameters bound to other
    expressions are substituted where they are only read (or assigned first when the helper writes them); every `return e`
    of the helper becomes the assignment / return of the call site (helpers returning from inside a loop are left alone)."""
    import copy

    root = copy.deepcopy(func.node)
    changed_any = [False]
    caller_names = {x.id for x in ast.walk(func.node) if isinstance(x, ast.Name)} | set(func.params)
    inl_counter = [0]

    def expand(st):
        """-> replacement statement list or None"""
        call = None
        kind = None
        if isinstance(st, ast.Return) and isinstance(st.value, ast.Call):
            call, kind = st.value, "return"
        elif isinstance(st, ast.Assign) and isinstance(st.value, ast.Call) and len(st.targets) == 1:
            call, kind = st.value, "assign"
        elif isinstance(st, ast.Expr) and isinstance(st.value, ast.Call):
            call, kind = st.value, "expr"
        elif isinstance(st, ast.Expr) and isinstance(st.value, ast.YieldFrom) and isinstance(st.value.value, ast.Call):
            call, kind = st.value.value, "yieldfrom"
        callee = repo.resolve_call(func, call) if call is not None else None
        if callee is None or callee is func or same_func(callee, func):
            return None
        if callee.module is not func.module and not _closed_helper(callee, methods=isinstance(call.func, ast.Attribute) and isinstance(call.func.value, ast.Name) and callee.name != "__init__" and repo.local_class_of(func, call.func.value.id) is None and not any(isinstance(x, (ast.For, ast.While, ast.ListComp, ast.SetComp, ast.DictComp, ast.GeneratorExp)) for x in ast.walk(callee.node))):
            return None  # a helper of another module is inlined only when it refers to nothing but its parameters, locals and builtins
        recv = None
        if callee.cls != func.cls and callee.cls is not None:
            # a method of a same-module class called on a local instance (`t = Table(); t.add(x)`): self := t
            # (or on a local name whose method of that name cannot be a builtin container / string / file method: the call
            # was resolved through the program-wide unique method name, `read.add_alignment(...)`)
            if not (isinstance(call.func, ast.Attribute) and isinstance(call.func.value, ast.Name) and (repo.local_class_of(func, call.func.value.id) == (callee.module.name, callee.cls) or (call.func.attr not in _BUILTIN_METHODS and call.func.value.id not in func.module.imports)) and callee.params and callee.params[0] == "self" and callee.name != "__init__"):
                return None
            recv = call.func.value.id
        elif callee.cls is not None and callee.cls == func.cls and isinstance(call.func, ast.Attribute) and isinstance(call.func.value, ast.Name) and call.func.value.id == "self" and callee.params and callee.params[0] == "self":
            recv = "self"
        is_gen = any(isinstance(x, (ast.Yield, ast.YieldFrom)) for x in ast.walk(callee.node))
        if is_gen != (kind == "yieldfrom"):
            return None
        if is_gen and any(isinstance(x, ast.Return) for x in ast.walk(callee.node)):
            return None
        if keep is not None and keep(callee):
            return None
        cbody = [x for x in callee.node.body if not (isinstance(x, ast.Expr) and isinstance(x.value, ast.Constant))]
        if (len(cbody) == 1 and isinstance(cbody[0], ast.Return) and kind != "expr") or not cbody or any(isinstance(a, ast.Starred) for a in call.args):
            return None  # single-return helpers are handled by expression inlining
        if kind == "expr" and ((callee.cls is not None and recv is None) or any(isinstance(x, ast.Return) and x.value is not None for x in ast.walk(callee.node))):
            return None  # only plain procedures (no result) are inlined at statement calls
        params = callee.params[1:] if (callee.cls and isinstance(call.func, ast.Attribute) and not is_static(callee)) else callee.params
        vararg = callee.node.args.vararg.arg if callee.node.args.vararg is not None else None
        params = [p_ for p_ in params if p_ != vararg]
        amap = {p_: a for p_, a in zip(params, call.args)}
        extra_args = list(call.args[len(params):])
        if extra_args and vararg is None:
            return None
        for k in call.keywords:
            if k.arg:
                amap[k.arg] = k.value
        for p_, d in zip(reversed(callee.node.args.args), reversed(callee.node.args.defaults)):
            amap.setdefault(p_.arg, d)
        if any(p_ not in amap for p_ in params):
            return None
        written = set()
        for x in ast.walk(callee.node):
            if isinstance(x, ast.Name) and isinstance(x.ctx, ast.Store):
                written.add(x.id)
        names, exprs, pre = {}, {}, []
        if recv is not None:
            names["self"] = recv
        for p_, a in amap.items():
            if isinstance(a, ast.Name):
                names[p_] = a.id
            elif p_ in written or any(isinstance(x, ast.Call) for x in ast.walk(a)):
                # evaluated once, like the call does
                local = p_ if p_ not in caller_names else f"{p_}__{callee.name}"
                if local != p_:
                    names[p_] = local
                pre.append(ast.copy_location(ast.Assign(targets=[ast.Name(id=local, ctx=ast.Store())], value=copy.deepcopy(a)), st))
            else:
                exprs[p_] = a
        # the helper's own locals must not clash with names of the caller or of an earlier inlined copy; result
        # variables handed back by name (x = helper() with `return x`) are matched up below, before this renaming matters
        ret_names = {x.id for r in ast.walk(callee.node) if isinstance(r, ast.Return) and r.value is not None for x in ast.walk(r.value) if isinstance(x, ast.Name)}
        for w in sorted(written - set(callee.params)):
            if w in caller_names and w not in names and not (kind == "assign" and w in ret_names):
                inl_counter[0] += 1
                names[w] = f"{w}__{inl_counter[0]}"
        body = [_Rename(names, exprs).visit(copy.deepcopy(x)) for x in cbody]
        for b_ in body:
            for x in ast.walk(b_):
                if isinstance(x, ast.Name):
                    caller_names.add(x.id)
        if vararg is not None:
            # f(x, *extra) inside the helper, with extra bound to the surplus positional arguments of this call
            if any(isinstance(x, ast.Name) and x.id == vararg and not isinstance(getattr(x, "_star_parent", None), ast.Starred) for b_ in body for x in ast.walk(b_) if False):
                return None
            ok_var = [True]

            class V(ast.NodeTransformer):
                def visit_Call(self, node):
                    self.generic_visit(node)
                    new_args = []
                    for a in node.args:
                        if isinstance(a, ast.Starred) and isinstance(a.value, ast.Name) and a.value.id == vararg:
                            new_args.extend(copy.deepcopy(extra_args))
                        else:
                            new_args.append(a)
                    node.args = new_args
                    return node

            body = [V().visit(x) for x in body]
            if any(isinstance(x, ast.Name) and x.id == vararg for b_ in body for x in ast.walk(b_)):
                return None  # the tuple itself is used: not expressible by substitution
        rets = [x for b_ in body for x in ast.walk(b_) if isinstance(x, ast.Return)]
        if kind == "yieldfrom":
            return pre + body
        if kind == "assign":
            tg = st.targets[0]
            pairs = None
            if len(rets) == 1 and body[-1] is rets[0]:
                last = rets[0]
                if isinstance(tg, ast.Name) and isinstance(last.value, ast.Name):
                    pairs = [(last.value.id, tg.id)]
                elif isinstance(tg, ast.Tuple) and isinstance(last.value, ast.Tuple) and len(tg.elts) == len(last.value.elts) and all(isinstance(x, ast.Name) for x in list(tg.elts) + list(last.value.elts)):
                    pairs = [(a.id, b.id) for a, b in zip(last.value.elts, tg.elts)]
                used = {x.id for b_ in body[:-1] for x in ast.walk(b_) if isinstance(x, ast.Name)}
                if pairs and len({a for a, _ in pairs}) == len(pairs) and all(a in written and a not in amap and (b == a or b not in used) for a, b in pairs):
                    # the helper's result variables become the caller's variables (no alias assignment left behind)
                    ren = {a: b for a, b in pairs if a != b}
                    return pre + [_Rename(ren, {}).visit(x) for x in body[:-1]]
            try:
                body = returns_to_assign(body, lambda v: ast.Assign(targets=copy.deepcopy(st.targets), value=v))
            except _NotInlinable:
                return None
        elif kind == "expr":
            try:
                body = returns_to_assign(body, lambda v: ast.Pass())
            except _NotInlinable:
                return None
        else:
            try:
                body = returns_to_assign(body, lambda v: ast.Return(value=v))
            except _NotInlinable:
                return None
        return pre + body

    def expand_generator_loop(st):
        """for T in gen(args): BODY, gen = `pre...; while/for ...: A; yield E` (one yield, last statement of the
        generator's only top-level loop, which is its last statement)  ->  pre; loop: A; T = E; BODY"""
        if not (isinstance(st, ast.For) and isinstance(st.iter, ast.Call) and not st.orelse):
            return None
        callee = repo.resolve_call(func, st.iter)
        if callee is None or same_func(callee, func) or callee.module is not func.module or callee.cls is not None:
            return None
        if keep is not None and keep(callee):
            return None
        cbody = [x for x in callee.node.body if not (isinstance(x, ast.Expr) and isinstance(x.value, ast.Constant))]
        yields = [x for x in ast.walk(callee.node) if isinstance(x, (ast.Yield, ast.YieldFrom))]
        if len(yields) != 1 or not isinstance(yields[0], ast.Yield) or yields[0].value is None or not cbody:
            return None
        gloop = cbody[-1]
        if not isinstance(gloop, (ast.While, ast.For)) or gloop.orelse or not gloop.body:
            return None
        last = gloop.body[-1]
        if not (isinstance(last, ast.Expr) and last.value is yields[0]):
            return None
        if any(isinstance(x, ast.Return) for b_ in cbody[:-1] for x in ast.walk(b_)):
            return None
        if any(isinstance(x, ast.Return) and x.value is not None for x in ast.walk(gloop)):
            return None
        call = st.iter
        if any(isinstance(a, ast.Starred) for a in call.args):
            return None
        params = callee.params
        amap = {p_: a for p_, a in zip(params, call.args)}
        for k in call.keywords:
            if k.arg:
                amap[k.arg] = k.value
        for p_, d in zip(reversed(callee.node.args.args), reversed(callee.node.args.defaults)):
            amap.setdefault(p_.arg, d)
        if any(p_ not in amap for p_ in params):
            return None
        written = {x.id for x in ast.walk(callee.node) if isinstance(x, ast.Name) and isinstance(x.ctx, ast.Store)}
        names, exprs, pre = {}, {}, []
        for p_, a in amap.items():
            if isinstance(a, ast.Name):
                names[p_] = a.id
            elif p_ in written or any(isinstance(x, ast.Call) for x in ast.walk(a)):
                local = p_ if p_ not in caller_names else f"{p_}__{callee.name}"
                if local != p_:
                    names[p_] = local
                pre.append(ast.copy_location(ast.Assign(targets=[ast.Name(id=local, ctx=ast.Store())], value=copy.deepcopy(a)), st))
            else:
                exprs[p_] = a
        # the generator's own locals must not clash with the caller's names
        for w in written - set(params):
            if w in caller_names:
                names[w] = f"{w}__{callee.name}"
        body = [_Rename(names, exprs).visit(copy.deepcopy(x)) for x in cbody]
        gl = body[-1]

        class R2B(ast.NodeTransformer):
            def visit_Return(self, node):
                return ast.copy_location(ast.Break(), node)

            def visit_FunctionDef(self, node):
                return node

            def visit_For(self, node):
                return node if node is not gl else self.generic_visit(node)

            def visit_While(self, node):
                return node if node is not gl else self.generic_visit(node)

        gl = R2B().visit(gl)
        yexpr = gl.body[-1].value.value
        tg = st.target
        pairs = None
        if isinstance(tg, ast.Name) and isinstance(yexpr, ast.Name):
            pairs = [(yexpr.id, tg.id)]
        elif isinstance(tg, ast.Tuple) and isinstance(yexpr, ast.Tuple) and len(tg.elts) == len(yexpr.elts) and all(isinstance(x, ast.Name) for x in list(tg.elts) + list(yexpr.elts)):
            pairs = [(a.id, b.id) for a, b in zip(yexpr.elts, tg.elts)]
        gen_locals = {x.id for b_ in body for x in ast.walk(b_) if isinstance(x, ast.Name) and isinstance(x.ctx, ast.Store)}
        gen_names = {x.id for b_ in body for x in ast.walk(b_) if isinstance(x, ast.Name)}
        if pairs and len({a for a, _ in pairs}) == len(pairs) and all(a in gen_locals and (b == a or b not in gen_names) for a, b in pairs):
            # the generator's yielded variables become the loop variables of the caller
            ren = {a: b for a, b in pairs if a != b}
            body = [_Rename(ren, {}).visit(x) for x in body[:-1]] + [_Rename(ren, {}).visit(gl)]
            gl = body[-1]
            gl.body = gl.body[:-1] + list(st.body)
            return pre + body[:-1] + [gl]
        bind = ast.copy_location(ast.Assign(targets=[copy.deepcopy(st.target)], value=yexpr), st)
        for x in ast.walk(bind.targets[0]):
            if hasattr(x, "ctx"):
                x.ctx = ast.Store()
        gl.body = gl.body[:-1] + [bind] + list(st.body)
        return pre + body[:-1] + [gl]

    def block(stmts):
        out = []
        for st in stmts:
            rep = expand(st)
            if rep is None:
                rep = expand_generator_loop(st)
            if rep is not None:
                changed_any[0] = True
                out.extend(rep)
                continue
            for fld in ("body", "orelse", "finalbody"):
                lst = getattr(st, fld, None)
                if isinstance(lst, list) and lst and isinstance(lst[0], ast.stmt) and not isinstance(st, (ast.FunctionDef, ast.AsyncFunctionDef, ast.ClassDef)):
                    setattr(st, fld, block(lst))
            if isinstance(st, ast.Try):
                for h in st.handlers:
                    h.body = block(h.body)
            out.append(st)
        return out

    for _ in range(depth):
        changed_any[0] = False
        root.body = block(root.body)
        if not changed_any[0]:
            break
    ast.fix_missing_locations(root)
    return root


def tail_inlined(repo, func, keep=None):
    node = inline_tail_calls(repo, func, keep=keep)
    f2 = Func(func.module, func.qualname, node, func.cls, func.parent)
    return f2


def const_fold(expr, consts, depth=0):
    """Value of a literal expression over str / int / list / tuple constants and module-level constants
    (`"\\t".join(["%s"] * 6 + ["%d"] * 6)`); raises ValueError when the expression is not such a constant."""
    if depth > 6:
        raise ValueError("too deep")
    if isinstance(expr, ast.Constant) and isinstance(expr.value, (str, int, bytes)) and not isinstance(expr.value, bool):
        return expr.value
    if isinstance(expr, ast.Call) and isinstance(expr.func, ast.Name) and expr.func.id == "len" and len(expr.args) == 1 and not expr.keywords:
        v = const_fold(expr.args[0], consts, depth + 1)
        if isinstance(v, (str, bytes, list, tuple)):
            return len(v)
        raise ValueError("not a constant")
    if isinstance(expr, ast.Name) and expr.id in consts:
        return const_fold(consts[expr.id], consts, depth + 1)
    if isinstance(expr, (ast.List, ast.Tuple)):
        vals = [const_fold(e, consts, depth + 1) for e in expr.elts]
        return vals if isinstance(expr, ast.List) else tuple(vals)
    if isinstance(expr, ast.BinOp) and isinstance(expr.op, (ast.Add, ast.Mult, ast.Mod)):
        l, r = const_fold(expr.left, consts, depth + 1), const_fold(expr.right, consts, depth + 1)
        if isinstance(expr.op, ast.Add) and type(l) is type(r):
            return l + r
        if isinstance(expr.op, ast.Mult) and (isinstance(l, int) and isinstance(r, (str, list, tuple)) or isinstance(r, int) and isinstance(l, (str, list, tuple))):
            n = l if isinstance(l, int) else r
            if 0 <= n <= 64:
                return l * r
        if isinstance(expr.op, ast.Mod) and isinstance(l, str) and "%" in l and isinstance(r, (str, int, tuple)):
            try:
                return l % r
            except (TypeError, ValueError):
                pass
        raise ValueError("not a constant")
    if isinstance(expr, ast.Call) and isinstance(expr.func, ast.Attribute) and expr.func.attr == "join" and len(expr.args) == 1 and not expr.keywords:
        sep = const_fold(expr.func.value, consts, depth + 1)
        items = const_fold(expr.args[0], consts, depth + 1)
        if isinstance(sep, str) and isinstance(items, (list, tuple)) and all(isinstance(x, str) for x in items):
            return sep.join(items)
    raise ValueError("not a constant")


class _ConstSubst(ast.NodeTransformer):
    def __init__(self, values, shadow):
        self.values, self.shadow = values, shadow

    def visit_Name(self, node):
        if isinstance(node.ctx, ast.Load) and node.id in self.values and node.id not in self.shadow:
            return ast.copy_location(ast.Constant(value=self.values[node.id]), node)
        return node


def with_str_consts(func):
    """A Func in which loads of module-level *string* constants (literal or constant-foldable) are replaced by the
    literal, so that `FMT % (...)` is analysed like `"...literal..." % (...)`."""
    import copy

    values = {}
    for name, e in func.module.consts.items():
        try:
            v = const_fold(e, func.module.consts)
        except (ValueError, RecursionError):
            continue
        if isinstance(v, (str, bytes)):
            values[name] = v
    if not values:
        return func
    shadow = {n.id for n in ast.walk(func.node) if isinstance(n, ast.Name) and isinstance(n.ctx, ast.Store)} | set(func.params)
    if not any(isinstance(n, ast.Name) and n.id in values and n.id not in shadow for n in ast.walk(func.node)):
        return func
    node = _ConstSubst(values, shadow).visit(copy.deepcopy(func.node))
    ast.fix_missing_locations(node)
    return Func(func.module, func.qualname, node, func.cls, func.parent)


def inline_bool_temps(func):
    """A Func in which a boolean temporary (`flag = x is not None`, single assignment, operands never reassigned) is
    replaced by its definition wherever it is read inside a test (if / while / conditional expression / assert)."""
    import copy

    defs = local_defs(func.node)
    stored = {}
    for n in ast.walk(func.node):
        if isinstance(n, ast.Name) and isinstance(n.ctx, (ast.Store, ast.Del)):
            stored[n.id] = stored.get(n.id, 0) + 1
    cands = {}
    for name, ds in defs.items():
        if len(ds) != 1 or ds[0] is None or stored.get(name, 0) != 1 or name in func.params:
            continue
        d = ds[0]
        if not isinstance(d, (ast.Compare, ast.BoolOp, ast.Attribute)) and not (isinstance(d, ast.UnaryOp) and isinstance(d.op, ast.Not)):
            continue
        if any(isinstance(x, (ast.Call, ast.NamedExpr, ast.Await, ast.Yield)) for x in ast.walk(d)):
            continue
        if any(isinstance(x, ast.Name) and stored.get(x.id, 0) > (0 if x.id in func.params else 1) for x in ast.walk(d)):
            continue
        cands[name] = d
    if not cands:
        return func

    class T(ast.NodeTransformer):
        def __init__(self):
            self.in_test = 0

        def _test(self, node, field="test"):
            self.in_test += 1
            setattr(node, field, self.visit(getattr(node, field)))
            self.in_test -= 1

        def visit_If(self, node):
            self._test(node)
            node.body = [self.visit(x) for x in node.body]
            node.orelse = [self.visit(x) for x in node.orelse]
            return node

        def visit_While(self, node):
            return self.visit_If(node)

        def visit_IfExp(self, node):
            self._test(node)
            node.body = self.visit(node.body)
            node.orelse = self.visit(node.orelse)
            return node

        def visit_Assert(self, node):
            self._test(node)
            return node

        def visit_Name(self, node):
            if self.in_test and isinstance(node.ctx, ast.Load) and node.id in cands:
                return ast.copy_location(copy.deepcopy(cands[node.id]), node)
            return node

    root = T().visit(copy.deepcopy(func.node))
    ast.fix_missing_locations(root)
    return Func(func.module, func.qualname, root, func.cls, func.parent)


class _GetattrConst(ast.NodeTransformer):
    def visit_Call(self, node):
        self.generic_visit(node)
        if isinstance(node.func, ast.Name) and node.func.id == "getattr" and len(node.args) == 2 and not node.keywords and isinstance(node.args[1], ast.Constant) and isinstance(node.args[1].value, str) and node.args[1].value.isidentifier():
            return ast.copy_location(ast.Attribute(value=node.args[0], attr=node.args[1].value, ctx=ast.Load()), node)
        return node


def unroll_const_loops(func, limit=8):
    """A Func in which `for x in (c1, ..., cn)` over a short literal (or module-level constant) tuple of constants, whose
    body has no break / continue of its own, is unrolled: one copy of the body per constant with x replaced by it and the
    body's own temporaries renamed per copy; `getattr(o, "name")` is written `o.name`."""
    import copy

    changed = [False]
    consts = func.module.consts

    def own_jump(stmts):
        for st in stmts:
            if isinstance(st, (ast.Continue, ast.Break)):
                return True
            if isinstance(st, (ast.For, ast.While, ast.FunctionDef, ast.AsyncFunctionDef, ast.ClassDef)):
                continue
            for fld in ("body", "orelse", "finalbody"):
                if own_jump(getattr(st, fld, []) or []):
                    return True
            if isinstance(st, ast.Try) and any(own_jump(h.body) for h in st.handlers):
                return True
        return False

    all_names = {}
    for n in ast.walk(func.node):
        if isinstance(n, ast.Name):
            all_names[n.id] = all_names.get(n.id, 0) + 1
    ldefs = local_defs(func.node)
    mutated = set()
    for n in ast.walk(func.node):
        if isinstance(n, ast.Call) and isinstance(n.func, ast.Attribute) and n.func.attr in _MUTATORS and isinstance(n.func.value, ast.Name):
            mutated.add(n.func.value.id)
        if isinstance(n, (ast.Subscript, ast.Attribute)) and isinstance(n.ctx, (ast.Store, ast.Del)) and isinstance(n.value, ast.Name):
            mutated.add(n.value.id)

    def block(stmts):
        out = []
        for st in stmts:
            for fld in ("body", "orelse", "finalbody"):
                lst = getattr(st, fld, None)
                if isinstance(lst, list) and lst and isinstance(lst[0], ast.stmt) and not isinstance(st, (ast.FunctionDef, ast.AsyncFunctionDef, ast.ClassDef)):
                    setattr(st, fld, block(lst))
            enum_target = None
            if isinstance(st, ast.For) and not st.orelse and isinstance(st.target, ast.Tuple) and len(st.target.elts) == 2 and all(isinstance(e, ast.Name) for e in st.target.elts) and isinstance(st.iter, ast.Call) and isinstance(st.iter.func, ast.Name) and st.iter.func.id == "enumerate" and st.iter.args:
                # for i, x in enumerate((c1, ..., cn)[, start]): both i and x are constants of each copy
                start = st.iter.args[1] if len(st.iter.args) > 1 else next((k.value for k in st.iter.keywords if k.arg == "start"), ast.Constant(value=0))
                if isinstance(start, ast.Constant) and isinstance(start.value, int):
                    enum_target = (st.target.elts[0].id, st.target.elts[1].id, start.value, st.iter.args[0])
            tuple_target = None
            if isinstance(st, ast.For) and not st.orelse and not enum_target and isinstance(st.target, ast.Tuple) and all(isinstance(e, ast.Name) for e in st.target.elts):
                tuple_target = [e.id for e in st.target.elts]
            if isinstance(st, ast.For) and (isinstance(st.target, ast.Name) or enum_target or tuple_target) and not st.orelse:
                it = enum_target[3] if enum_target else st.iter
                if isinstance(it, ast.Name) and it.id in consts:
                    it = consts[it.id]
                elif isinstance(it, ast.Name) and len(ldefs.get(it.id, [])) == 1 and isinstance(ldefs[it.id][0], (ast.Tuple, ast.List)) and it.id not in mutated:
                    it = ldefs[it.id][0]  # a local literal tuple that is only iterated
                elif isinstance(it, ast.Name) and it.id not in mutated:
                    # bound to a literal tuple by the nearest preceding statement of this block (one arm of a branch)
                    for prev in reversed(out):
                        if isinstance(prev, ast.Assign) and len(prev.targets) == 1 and isinstance(prev.targets[0], ast.Name) and prev.targets[0].id == it.id:
                            if isinstance(prev.value, (ast.Tuple, ast.List)):
                                it = prev.value
                            break
                        if any(isinstance(x, ast.Name) and x.id == it.id and isinstance(x.ctx, (ast.Store, ast.Del)) for x in ast.walk(prev)):
                            break
                def pure_path(x):
                    """an access path (a.b[c].d) without calls, not written or mutated in the loop body"""
                    y = x
                    while isinstance(y, (ast.Attribute, ast.Subscript)):
                        if isinstance(y, ast.Subscript) and not isinstance(y.slice, (ast.Constant, ast.Name)):
                            return False
                        y = y.value
                    if not isinstance(y, ast.Name) or y is x:
                        return False
                    t = norm(x)
                    for b_ in st.body:
                        for z in ast.walk(b_):
                            if isinstance(z, (ast.Attribute, ast.Subscript)) and isinstance(z.ctx, (ast.Store, ast.Del)) and norm(z).startswith(t):
                                return False
                            if isinstance(z, ast.Call) and isinstance(z.func, ast.Attribute) and z.func.attr in _MUTATORS and norm(z.func.value).startswith(t):
                                return False
                    return True

                def atom(x):
                    return isinstance(x, (ast.Constant, ast.Name)) or pure_path(x)

                def simple(e):
                    if tuple_target is not None:
                        return isinstance(e, ast.Tuple) and len(e.elts) == len(tuple_target) and all(atom(x) for x in e.elts)
                    return isinstance(e, (ast.Constant, ast.Name)) or (isinstance(e, ast.Tuple) and all(isinstance(x, (ast.Constant, ast.Name)) for x in e.elts))

                body_stores = {x.id for b_ in st.body for x in ast.walk(b_) if isinstance(x, ast.Name) and isinstance(x.ctx, ast.Store)}
                elem_names = {x.id for e in (it.elts if isinstance(it, (ast.Tuple, ast.List)) else []) for x in ast.walk(e) if isinstance(x, ast.Name)}
                if isinstance(it, (ast.Tuple, ast.List)) and 1 <= len(it.elts) <= limit and all(simple(e) for e in it.elts) and not (elem_names & body_stores) and not own_jump(st.body):
                    inside = {}
                    for b_ in st.body:
                        for x in ast.walk(b_):
                            if isinstance(x, ast.Name):
                                inside[x.id] = inside.get(x.id, 0) + 1
                    assigned = {x.id for b_ in st.body for x in ast.walk(b_) if isinstance(x, ast.Name) and isinstance(x.ctx, ast.Store)}
                    tnames = {enum_target[0], enum_target[1]} if enum_target else (set(tuple_target) if tuple_target else {st.target.id})
                    temps = {nm for nm in assigned if inside[nm] == all_names.get(nm, 0) and nm not in tnames}
                    for k, c in enumerate(it.elts):
                        ren = {nm: f"{nm}__{k}" for nm in temps}
                        if enum_target:
                            sub = {enum_target[0]: ast.Constant(value=enum_target[2] + k), enum_target[1]: c}
                        elif tuple_target:
                            sub = dict(zip(tuple_target, c.elts))
                        else:
                            sub = {st.target.id: c}
                        for b_ in st.body:
                            nb = _Rename(ren, sub).visit(copy.deepcopy(b_))
                            out.append(nb)
                    changed[0] = True
                    continue
            out.append(st)
        return out

    root = copy.deepcopy(func.node)
    root.body = block(root.body)
    root = _GetattrConst().visit(root)
    if not changed[0] and ast.dump(root) == ast.dump(func.node):
        return func
    ast.fix_missing_locations(root)
    return Func(func.module, func.qualname, root, func.cls, func.parent)


_MUTATORS = {"append", "extend", "insert", "pop", "popitem", "remove", "clear", "update", "add", "discard", "setdefault", "sort", "reverse", "popleft", "appendleft"}


def inline_pure_temps(func):
    """inline_access_aliases, and also single-assignment temporaries holding a pure arithmetic expression over such access
    paths (`span = rec.query_end - rec.query_start`, `n_reads = len(reads)`, `remaining = length - end`): + - * / // %,
    unary minus, comparisons, and the builtins len / int / float / abs / str of such expressions."""
    return inline_access_aliases(func, arith=True)


_PURE_BUILTINS = ("len", "int", "float", "abs", "str")


def inline_access_aliases(func, arith=False):
    """A Func in which a local alias of an access path (`node = table[rec.name]`, `tags = rec.tags`: single assignment to
    a plain name, definition made of names / attributes / subscripts only, operands assigned at most once) is replaced by
    its definition wherever it is read."""
    import copy

    defs = local_defs(func.node)
    stored = {}
    for n in ast.walk(func.node):
        if isinstance(n, ast.Name) and isinstance(n.ctx, (ast.Store, ast.Del)):
            stored[n.id] = stored.get(n.id, 0) + 1
    # names that are mutated through (x[...] = ..., x.attr = ..., x.append()) stay as they are when they alias a fresh object
    cands = {}
    for name, ds in defs.items():
        if len(ds) != 1 or ds[0] is None or stored.get(name, 0) != 1 or name in func.params:
            continue
        d = ds[0]
        if arith and isinstance(d, (ast.BinOp, ast.UnaryOp, ast.Call, ast.Compare)) and not isinstance(d, ast.Constant):
            allowed = (ast.Name, ast.Attribute, ast.Subscript, ast.Constant, ast.Load, ast.UnaryOp, ast.USub, ast.BinOp, ast.Add, ast.Sub, ast.Mult, ast.Div, ast.FloorDiv, ast.Mod, ast.Call, ast.Compare, ast.Lt, ast.LtE, ast.Gt, ast.GtE, ast.Eq, ast.NotEq)
            if any(not isinstance(x, allowed) for x in ast.walk(d)):
                continue
            if any(isinstance(x, ast.Call) and not (isinstance(x.func, ast.Name) and x.func.id in _PURE_BUILTINS and not x.keywords and len(x.args) == 1) for x in ast.walk(d)):
                continue
            if any(isinstance(x, ast.Name) and x.id in _PURE_BUILTINS and stored.get(x.id, 0) for x in ast.walk(d)):
                continue
        else:
            if not isinstance(d, (ast.Subscript, ast.Attribute) + ((ast.Name,) if arith else ())):
                continue
            if any(not isinstance(x, (ast.Name, ast.Attribute, ast.Subscript, ast.Constant, ast.Load, ast.Tuple, ast.UnaryOp, ast.USub)) for x in ast.walk(d)):
                continue
        if any(isinstance(x, ast.Name) and stored.get(x.id, 0) > (0 if x.id in func.params else 1) for x in ast.walk(d)):
            continue
        # the aliased object must not be mutated while the alias is live: no mutation of a root of the path inside the
        # loop that contains the definition, nor anywhere after the definition
        roots = {x.id for x in ast.walk(d) if isinstance(x, ast.Name)}
        _inner = {id(x.value) for x in ast.walk(d) if isinstance(x, (ast.Attribute, ast.Subscript))}
        read_paths = {norm(x) for x in ast.walk(d) if isinstance(x, (ast.Name, ast.Attribute, ast.Subscript)) and id(x) not in _inner}  # maximal access paths
        dstmt = next((st for st in ast.walk(func.node) if isinstance(st, ast.Assign) and (st.value is d or (isinstance(d, ast.Subscript) and st.value is d.value and isinstance(st.targets[0], (ast.Tuple, ast.List))))), None)
        if dstmt is None:
            continue
        loop = None
        for lp in ast.walk(func.node):
            if isinstance(lp, (ast.For, ast.While)) and any(x is dstmt for x in ast.walk(lp)):
                if loop is None or any(x is lp for x in ast.walk(loop)):
                    loop = lp
        in_loop = {id(x) for x in ast.walk(loop)} if loop is not None else set()
        unsafe = False
        for m_ in ast.walk(func.node):
            base = None
            if isinstance(m_, (ast.Subscript, ast.Attribute)) and isinstance(m_.ctx, (ast.Store, ast.Del)):
                base = m_.value
            elif isinstance(m_, ast.Call) and isinstance(m_.func, ast.Attribute) and m_.func.attr in _MUTATORS:
                base = m_.func.value
            if base is None:
                continue
            written = norm(m_ if isinstance(m_, (ast.Subscript, ast.Attribute)) else base)
            while isinstance(base, (ast.Subscript, ast.Attribute)):
                base = base.value
            if isinstance(base, ast.Name) and base.id in roots and (id(m_) in in_loop or getattr(m_, "lineno", 0) >= dstmt.lineno):
                # the written path and a path read by the definition overlap (one is a prefix of the other):
                # `rec.tags[k] = v` does not disturb `rec.query_end - rec.query_start`
                def _overlap(a_, b_):
                    return a_ == b_ or a_.startswith(b_ + ".") or a_.startswith(b_ + "[") or b_.startswith(a_ + ".") or b_.startswith(a_ + "[")

                if not arith or any(_overlap(written, r_) for r_ in read_paths):
                    unsafe = True
                    break
        if unsafe:
            continue
        cands[name] = d
    if not cands:
        return func

    class T(ast.NodeTransformer):
        def visit_Name(self, node):
            if isinstance(node.ctx, ast.Load) and node.id in cands:
                return ast.copy_location(self.visit(copy.deepcopy(cands[node.id])), node)
            return node

    root = T().visit(copy.deepcopy(func.node))
    ast.fix_missing_locations(root)
    return Func(func.module, func.qualname, root, func.cls, func.parent)


def _pure_expr(e):
    """names, constants, attribute / subscript paths, tuples and arithmetic of such (no calls)."""
    ok = (ast.Name, ast.Constant, ast.Attribute, ast.Subscript, ast.Tuple, ast.Load, ast.BinOp, ast.UnaryOp, ast.USub, ast.Add, ast.Sub, ast.Mult, ast.Slice)
    return all(isinstance(x, ok) for x in ast.walk(e))


def expand_table_dispatch(func, limit=8):
    """A Func in which a look-up of a small literal table with constant keys by a pure key expression
        v = TABLE.get(K)   /   v = TABLE.get(K, D)   /   v = TABLE[K]
    (TABLE a module-level dict display, or a local name bound once to a dict display and never mutated; values are
    constants, names, or tuples of those) becomes the case analysis it abbreviates: the rest of the block is copied under
    `if K == k1: ... elif K == k2: ... else: ...` with v (and names unpacked from it) replaced by the row's value, tests on
    constants (`"del" is not None`) decided and dead arms dropped.  The else arm binds None / D (`.get`) or raises
    KeyError (`[K]`)."""
    import copy

    consts = func.module.consts
    shadow = {x.id for x in ast.walk(func.node) if isinstance(x, ast.Name) and isinstance(x.ctx, ast.Store)} | set(func.params)
    local_tabs = {}
    stores = {}
    for st in walk_stmts(func.node.body):
        if isinstance(st, ast.Assign) and len(st.targets) == 1 and isinstance(st.targets[0], ast.Name):
            stores.setdefault(st.targets[0].id, []).append(st.value)
    n_store = {}
    for x in ast.walk(func.node):
        if isinstance(x, ast.Name) and isinstance(x.ctx, (ast.Store, ast.Del)):
            n_store[x.id] = n_store.get(x.id, 0) + 1
    for nm, vals in stores.items():
        if len(vals) == 1 and n_store.get(nm) == 1 and isinstance(vals[0], ast.Dict) and nm not in func.params:
            mutated = False
            for x in ast.walk(func.node):
                if isinstance(x, ast.Subscript) and isinstance(x.ctx, (ast.Store, ast.Del)) and isinstance(x.value, ast.Name) and x.value.id == nm:
                    mutated = True
                if isinstance(x, ast.Call) and isinstance(x.func, ast.Attribute) and x.func.attr in _MUTATORS and isinstance(x.func.value, ast.Name) and x.func.value.id == nm:
                    mutated = True
            if not mutated:
                local_tabs[nm] = vals[0]

    def table_of(e):
        if not isinstance(e, ast.Name):
            return None
        d = local_tabs.get(e.id) if e.id in local_tabs else (consts.get(e.id) if e.id not in shadow else None)
        if not isinstance(d, ast.Dict) or not d.keys or len(d.keys) > limit:
            return None

        def ck(k):
            return isinstance(k, ast.Constant) or (isinstance(k, ast.Tuple) and all(isinstance(x, ast.Constant) for x in k.elts))

        def cv(v):
            return isinstance(v, (ast.Constant, ast.Name)) or (isinstance(v, ast.Tuple) and all(isinstance(x, (ast.Constant, ast.Name)) for x in v.elts))

        if not all(k is not None and ck(k) for k in d.keys) or not all(cv(v) for v in d.values):
            return None
        if len({norm(k) for k in d.keys}) != len(d.keys):
            return None
        return d

    def lookup(st):
        """(var, table, key expr, default or None, 'get' | 'item') of `v = T.get(K[, D])` / `v = T[K]`"""
        if not (isinstance(st, ast.Assign) and len(st.targets) == 1 and isinstance(st.targets[0], ast.Name)):
            return None
        v = st.value
        if isinstance(v, ast.Call) and isinstance(v.func, ast.Attribute) and v.func.attr == "get" and not v.keywords and len(v.args) in (1, 2):
            d = table_of(v.func.value)
            if d is not None and _pure_expr(v.args[0]) and (len(v.args) == 1 or isinstance(v.args[1], (ast.Constant, ast.Name))):
                return st.targets[0].id, d, v.args[0], (v.args[1] if len(v.args) == 2 else ast.Constant(value=None)), "get"
        if isinstance(v, ast.Subscript) and isinstance(v.ctx, ast.Load):
            d = table_of(v.value)
            if d is not None and _pure_expr(v.slice) and not isinstance(v.slice, (ast.Constant, ast.Slice)):
                return st.targets[0].id, d, v.slice, None, "item"
        return None

    class Sub(ast.NodeTransformer):
        def __init__(self, env):
            self.env = env

        def visit_Name(self, n):
            if isinstance(n.ctx, ast.Load) and n.id in self.env:
                return ast.copy_location(copy.deepcopy(self.env[n.id]), n)
            return n

    class Fold(ast.NodeTransformer):
        def visit_Compare(self, n):
            self.generic_visit(n)
            if len(n.ops) == 1 and isinstance(n.ops[0], (ast.Is, ast.IsNot)) and isinstance(n.left, (ast.Constant, ast.Tuple)) and isinstance(n.comparators[0], ast.Constant) and n.comparators[0].value is None:
                same = isinstance(n.left, ast.Constant) and n.left.value is None
                return ast.copy_location(ast.Constant(value=same if isinstance(n.ops[0], ast.Is) else not same), n)
            return n

        def visit_UnaryOp(self, n):
            self.generic_visit(n)
            if isinstance(n.op, ast.Not) and isinstance(n.operand, ast.Constant) and isinstance(n.operand.value, bool):
                return ast.copy_location(ast.Constant(value=not n.operand.value), n)
            return n

        def visit_If(self, n):
            self.generic_visit(n)
            if isinstance(n.test, ast.Constant) and isinstance(n.test.value, bool):
                arm = n.body if n.test.value else n.orelse
                return arm if arm else ast.copy_location(ast.Pass(), n)
            return n

    def specialise(rest, var, val):
        """copy of `rest` with var := val (when var is not stored again), unpackings of it split, constants propagated
        (also into nested blocks) and tests on constants decided"""
        rest = copy.deepcopy(rest)
        nstore = {}
        for r in rest:
            for y in ast.walk(r):
                if isinstance(y, ast.Name) and isinstance(y.ctx, (ast.Store, ast.Del)):
                    nstore[y.id] = nstore.get(y.id, 0) + 1

        def flat(x):
            return x if isinstance(x, list) else [x]

        def prop(stmts, env):
            """env (mutable) holds the constants known at this point of the block"""
            out = []
            for r in stmts:
                if env:
                    r = Sub(env).visit(r)
                pieces = flat(Fold().visit(r))
                if len(pieces) > 1 or (pieces and pieces[0] is not r):
                    out.extend(prop(pieces, env))  # an `if` decided by the substitution: its arm is read like the block itself
                    continue
                for r2 in pieces:
                    if isinstance(r2, ast.Assign) and len(r2.targets) == 1 and isinstance(r2.targets[0], ast.Tuple) and isinstance(r2.value, ast.Tuple) and len(r2.targets[0].elts) == len(r2.value.elts) and all(isinstance(t, ast.Name) for t in r2.targets[0].elts) and all(isinstance(x, (ast.Constant, ast.Name)) for x in r2.value.elts):
                        for t, x in zip(r2.targets[0].elts, r2.value.elts):
                            out.append(ast.copy_location(ast.Assign(targets=[ast.Name(id=t.id, ctx=ast.Store())], value=x), r2))
                            if nstore.get(t.id) == 1 and isinstance(x, ast.Constant):
                                env[t.id] = x
                        continue
                    if isinstance(r2, ast.Assign) and len(r2.targets) == 1 and isinstance(r2.targets[0], ast.Name) and isinstance(r2.value, ast.Constant) and nstore.get(r2.targets[0].id) == 1:
                        env[r2.targets[0].id] = r2.value
                    for fld in ("body", "orelse", "finalbody"):
                        lst = getattr(r2, fld, None)
                        if isinstance(lst, list) and lst and isinstance(lst[0], ast.stmt) and not isinstance(r2, (ast.FunctionDef, ast.AsyncFunctionDef, ast.ClassDef)):
                            setattr(r2, fld, prop(lst, dict(env)) or [ast.copy_location(ast.Pass(), r2)])
                    for h in getattr(r2, "handlers", []) or []:
                        h.body = prop(h.body, dict(env))
                    out.append(r2)
            return out

        return prop(rest, {var: val} if var not in nstore else {})

    changed = [False]

    def block(stmts):
        stmts = list(stmts)
        for i, st in enumerate(stmts):
            lk = lookup(st)
            if lk is None:
                continue
            var, d, key, default, kind = lk
            rest = stmts[i + 1 :]
            if sum(len(list(ast.walk(r))) for r in rest) > 600:
                continue
            chain = None
            tail = None
            if kind == "get":
                tail = [ast.copy_location(ast.Assign(targets=[ast.Name(id=var, ctx=ast.Store())], value=copy.deepcopy(default)), st)] + specialise(rest, var, default)
            else:
                tail = [ast.copy_location(ast.Raise(exc=ast.Call(func=ast.Name(id="KeyError", ctx=ast.Load()), args=[copy.deepcopy(key)], keywords=[]), cause=None), st)]
            for k, v in reversed(list(zip(d.keys, d.values))):
                test = ast.Compare(left=copy.deepcopy(key), ops=[ast.Eq()], comparators=[copy.deepcopy(k)])
                body = [ast.copy_location(ast.Assign(targets=[ast.Name(id=var, ctx=ast.Store())], value=copy.deepcopy(v)), st)] + specialise(rest, var, v)
                chain = ast.copy_location(ast.If(test=test, body=body, orelse=[chain] if chain is not None else tail), st)
            changed[0] = True
            new = stmts[:i] + [chain]
            return block(new)
        for st in stmts:
            for fld in ("body", "orelse", "finalbody"):
                lst = getattr(st, fld, None)
                if isinstance(lst, list) and lst and isinstance(lst[0], ast.stmt) and not isinstance(st, (ast.FunctionDef, ast.AsyncFunctionDef, ast.ClassDef)):
                    setattr(st, fld, block(lst))
            if isinstance(st, ast.Try):
                for h in st.handlers:
                    h.body = block(h.body)
        return stmts

    root = copy.deepcopy(func.node)
    # tables of the copy: re-resolve on the copy so that identity of statements is consistent
    saved = func.node
    try:
        root.body = block(root.body)
    finally:
        func.node = saved
    if not changed[0]:
        return func
    ast.fix_missing_locations(root)
    out = Func(func.module, func.qualname, root, func.cls, func.parent)
    return scalarise_counters(out)


def scalarise_counters(func):
    """A Func in which a local `c = Counter()` (collections.Counter, no arguments) that is only ever used as `c[<constant>]`
    is replaced by one variable per key, each starting at 0 (a missing key of a Counter reads as 0)."""
    import copy

    cands = {}
    for st in walk_stmts(func.node.body):
        if isinstance(st, ast.Assign) and len(st.targets) == 1 and isinstance(st.targets[0], ast.Name) and isinstance(st.value, ast.Call) and norm(st.value.func) in ("Counter", "collections.Counter") and not st.value.args and not st.value.keywords:
            cands.setdefault(st.targets[0].id, []).append(st)
    if not cands:
        return func
    parents = parents_map(func.node)
    keys = {}
    for var in list(cands):
        ks = []
        ok = var not in func.params
        for n in ast.walk(func.node):
            if isinstance(n, ast.Name) and n.id == var:
                par = parents.get(n)
                if isinstance(par, ast.Assign) and any(par is st for st in cands[var]) and par.targets[0] is n:
                    continue
                if isinstance(par, ast.Subscript) and par.value is n and isinstance(par.slice, ast.Constant) and isinstance(par.slice.value, (str, int)) and not isinstance(par.ctx, ast.Del):
                    if par.slice.value not in ks:
                        ks.append(par.slice.value)
                    continue
                ok = False
        if ok and ks:
            keys[var] = ks
    if not keys:
        return func

    def ident(var, k):
        return var + "__" + "".join(ch if (ch.isalnum() or ch == "_") else "_%02x" % ord(ch) for ch in str(k))

    root = copy.deepcopy(func.node)

    class T(ast.NodeTransformer):
        def visit_Subscript(self, n):
            if isinstance(n.value, ast.Name) and n.value.id in keys and isinstance(n.slice, ast.Constant):
                return ast.copy_location(ast.Name(id=ident(n.value.id, n.slice.value), ctx=n.ctx), n)
            return self.generic_visit(n)

    def block(stmts):
        out = []
        for st in stmts:
            if isinstance(st, ast.Assign) and len(st.targets) == 1 and isinstance(st.targets[0], ast.Name) and st.targets[0].id in keys and isinstance(st.value, ast.Call) and norm(st.value.func) in ("Counter", "collections.Counter"):
                for k in keys[st.targets[0].id]:
                    out.append(ast.copy_location(ast.Assign(targets=[ast.Name(id=ident(st.targets[0].id, k), ctx=ast.Store())], value=ast.Constant(value=0)), st))
                continue
            for fld in ("body", "orelse", "finalbody"):
                lst = getattr(st, fld, None)
                if isinstance(lst, list) and lst and isinstance(lst[0], ast.stmt) and not isinstance(st, (ast.FunctionDef, ast.AsyncFunctionDef, ast.ClassDef)):
                    setattr(st, fld, block(lst))
            if isinstance(st, ast.Try):
                for h in st.handlers:
                    h.body = block(h.body)
            out.append(T().visit(st))
        return out

    root.body = block(root.body)
    ast.fix_missing_locations(root)
    return Func(func.module, func.qualname, root, func.cls, func.parent)


def merge_tail_accumulator(func):
    """A Func in which a second string accumulator that is only ever appended to and read once, as the tail of `V + T`
    (V another local string that is not written between T's initialisation and that read), is folded into V:
        T = ""; ...; T += e; ...; return V + T        ->        ...; V += e; ...; return V"""
    import copy

    node = func.node
    parents = parents_map(node)
    inits, augs, loads, bad = {}, {}, {}, set()
    for n in ast.walk(node):
        if not isinstance(n, ast.Name):
            continue
        par = parents.get(n)
        if isinstance(n.ctx, ast.Store):
            if isinstance(par, ast.Assign) and len(par.targets) == 1 and par.targets[0] is n and isinstance(par.value, ast.Constant) and par.value.value == "":
                inits.setdefault(n.id, []).append(par)
            elif isinstance(par, ast.AugAssign) and par.target is n and isinstance(par.op, ast.Add):
                augs.setdefault(n.id, []).append(par)
            else:
                bad.add(n.id)
        else:
            loads.setdefault(n.id, []).append(n)
    todo = []
    for t, ini in inits.items():
        if t in bad or t in func.params or len(ini) != 1 or not augs.get(t) or len(loads.get(t, [])) != 1:
            continue
        ld = loads[t][0]
        par = parents.get(ld)
        if not (isinstance(par, ast.BinOp) and isinstance(par.op, ast.Add) and par.right is ld and isinstance(par.left, ast.Name)):
            continue
        v = par.left.id
        if v == t:
            continue
        # V is not written between T's initialisation and the read; every append to T lies between them
        v_stores = [x for x in ast.walk(node) if isinstance(x, ast.Name) and x.id == v and isinstance(x.ctx, (ast.Store, ast.Del))]
        if any(func.before(ini[0], x) and func.before(x, ld) for x in v_stores):
            continue
        if not all(func.before(ini[0], a) and func.before(a, ld) for a in augs[t]):
            continue
        todo.append((t, v, ini[0], par))
    if not todo:
        return func
    m1 = list(ast.walk(node))
    root = copy.deepcopy(node)
    m2 = list(ast.walk(root))
    remap = {id(a): b for a, b in zip(m1, m2)}
    drop = {id(remap[id(i)]) for _t, _v, i, _p in todo}
    ren = {t: v for t, v, _i, _p in todo}
    reads = {id(remap[id(p_)]): v for _t, v, _i, p_ in todo}

    class T(ast.NodeTransformer):
        def visit_BinOp(self, b):
            if id(b) in reads:
                return ast.copy_location(ast.Name(id=reads[id(b)], ctx=ast.Load()), b)
            return self.generic_visit(b)

        def visit_AugAssign(self, a):
            self.generic_visit(a)
            if isinstance(a.target, ast.Name) and a.target.id in ren:
                a.target = ast.Name(id=ren[a.target.id], ctx=ast.Store())
            return a

        def visit_Assign(self, a):
            if id(a) in drop:
                return ast.copy_location(ast.Pass(), a)
            return self.generic_visit(a)

    root = T().visit(root)
    ast.fix_missing_locations(root)
    return Func(func.module, func.qualname, root, func.cls, func.parent)


def string_builders(func):
    """A Func in which a local list that only collects pieces of one string — bound to `[]`, touched only by
    `L.append(E)` statements, and read exactly once as `"".join(L)` — is the string it builds:
        L = []; ...; L.append(E); ...; s = "".join(L)      ->      L = ""; ...; L += E; ...; s = L"""
    import copy

    node = func.node
    inits, appends, joins, other = {}, {}, {}, set()
    parents = parents_map(node)
    for n in ast.walk(node):
        if not isinstance(n, ast.Name):
            continue
        par = parents.get(n)
        if isinstance(n.ctx, ast.Store):
            if isinstance(par, ast.Assign) and len(par.targets) == 1 and par.targets[0] is n and ((isinstance(par.value, ast.List) and not any(isinstance(x, ast.Starred) for x in par.value.elts)) or (isinstance(par.value, ast.Call) and isinstance(par.value.func, ast.Name) and par.value.func.id == "list" and not par.value.args)):
                inits.setdefault(n.id, []).append(par)
            else:
                other.add(n.id)
            continue
        gp = parents.get(par) if par is not None else None
        if isinstance(par, ast.Attribute) and par.attr == "append" and par.value is n and isinstance(gp, ast.Call) and gp.func is par and len(gp.args) == 1 and not gp.keywords and isinstance(parents.get(gp), ast.Expr):
            appends.setdefault(n.id, []).append(gp)
        elif isinstance(par, ast.Call) and isinstance(par.func, ast.Attribute) and par.func.attr == "join" and isinstance(par.func.value, ast.Constant) and par.func.value.value == "" and par.args == [n] and not par.keywords:
            joins.setdefault(n.id, []).append(par)
        else:
            other.add(n.id)
    cands = {nm for nm in inits if nm not in other and nm not in func.params and len(joins.get(nm, [])) == 1 and appends.get(nm)}
    # the join comes after every append in the text (the list is complete when it is read) and is not inside a loop that appends
    ok = set()
    for nm in cands:
        j = joins[nm][0]
        if all(func.before(a, j) for a in appends[nm]) and all(func.before(i_, a) for i_ in inits[nm] for a in appends[nm]):
            ok.add(nm)
    # the same name used for several builders one after the other (one per branch): init_1 .. appends .. join_1, init_2 .. join_2
    for nm in inits:
        if nm in other or nm in func.params or nm in ok or len(joins.get(nm, [])) < 2 or len(joins[nm]) != len(inits[nm]) or not appends.get(nm):
            continue
        evs = sorted([(func.pos(i_), "i") for i_ in inits[nm]] + [(func.pos(j_), "j") for j_ in joins[nm]] + [(func.pos(a_), "a") for a_ in appends[nm]])
        state, good = "out", True
        for _p, k_ in evs:
            if k_ == "i" and state == "out":
                state = "in"
            elif k_ == "a" and state == "in":
                pass
            elif k_ == "j" and state == "in":
                state = "out"
            else:
                good = False
        if good and state == "out":
            ok.add(nm)
    if not ok:
        return func
    # L = [X] with X a local string that is not touched again: X itself goes on as the accumulator
    carry = {}
    rebind_stmts = set()
    for nm in ok:
        if len(inits[nm]) == 1 and isinstance(inits[nm][0].value, ast.List) and len(inits[nm][0].value.elts) == 1 and isinstance(inits[nm][0].value.elts[0], ast.Name):
            x = inits[nm][0].value.elts[0]
            later = [y for y in ast.walk(node) if isinstance(y, ast.Name) and y.id == x.id and y is not x and func.before(inits[nm][0], y)]
            # `X = "".join(L)` rebinding X to the finished string is the only later mention that is allowed
            jpar = parents.get(joins[nm][0])
            rebinding = isinstance(jpar, ast.Assign) and len(jpar.targets) == 1 and isinstance(jpar.targets[0], ast.Name) and jpar.targets[0].id == x.id and jpar.value is joins[nm][0]
            if rebinding:
                later = [y for y in later if y is not jpar.targets[0] and func.before(y, jpar)]
            if not later and x.id not in func.params:
                carry[nm] = x.id
                if rebinding:
                    rebind_stmts.add(id(jpar))
    ids_init = {id(st) for nm in ok for st in inits[nm]}
    ids_app = {id(c): carry.get(nm, nm) for nm in ok for c in appends[nm]}
    ids_join = {id(c): carry.get(nm, nm) for nm in ok for c in joins[nm]}
    ids_drop = {id(inits[nm][0]) for nm in carry} | rebind_stmts

    class T(ast.NodeTransformer):
        def visit_Assign(self, st):
            if id(st) in ids_drop:
                return ast.copy_location(ast.Pass(), st)
            if id(st) in ids_init:
                first = st.value.elts if isinstance(st.value, ast.List) else []
                v = ast.Constant(value="")
                for i_, x in enumerate(first):  # L = [a, b]: the string starts as a + b
                    v = x if i_ == 0 else ast.BinOp(left=v, op=ast.Add(), right=x)
                return ast.copy_location(ast.Assign(targets=st.targets, value=v), st)
            return self.generic_visit(st)

        def visit_Expr(self, st):
            if isinstance(st.value, ast.Call) and id(st.value) in ids_app:
                nm = ids_app[id(st.value)]
                return ast.copy_location(ast.AugAssign(target=ast.Name(id=nm, ctx=ast.Store()), op=ast.Add(), value=self.visit(st.value.args[0])), st)
            return self.generic_visit(st)

        def visit_Call(self, c):
            if id(c) in ids_join:
                return ast.copy_location(ast.Name(id=ids_join[id(c)], ctx=ast.Load()), c)
            return self.generic_visit(c)

    # transform a copy while keeping identity: work on the original ids, so transform in place on a deep copy keyed by position
    root = copy.deepcopy(node)
    # re-derive ids on the copy by parallel walk
    m1 = list(ast.walk(node))
    m2 = list(ast.walk(root))
    remap = {id(a): b for a, b in zip(m1, m2)}
    ids_init = {id(remap[i]) for i in ids_init}
    ids_drop = {id(remap[i]) for i in ids_drop}
    ids_app = {id(remap[i]): nm for i, nm in ids_app.items()}
    ids_join = {id(remap[i]): nm for i, nm in ids_join.items()}
    root = T().visit(root)
    ast.fix_missing_locations(root)
    return Func(func.module, func.qualname, root, func.cls, func.parent)


def while_next_loops(func):
    """A Func in which the hand-written iteration protocol
        while True:
            try: x = next(IT)
            except StopIteration: break
            BODY
    is written `for x in IT: BODY` (IT a name; exact, including `continue` / `break` in BODY), and a name bound once to an
    iterator-returning call that is only used as the iterable of one `for` is read in place (`it = g.read_file(); for x
    in it:` -> `for x in g.read_file():`)."""
    import copy

    changed = [False]

    def block(stmts):
        out = []
        for st in stmts:
            for fld in ("body", "orelse", "finalbody"):
                lst = getattr(st, fld, None)
                if isinstance(lst, list) and lst and isinstance(lst[0], ast.stmt) and not isinstance(st, (ast.FunctionDef, ast.AsyncFunctionDef, ast.ClassDef)):
                    setattr(st, fld, block(lst))
            if isinstance(st, ast.Try):
                for h in st.handlers:
                    h.body = block(h.body)
            if isinstance(st, ast.While) and isinstance(st.test, ast.Constant) and st.test.value is True and not st.orelse and st.body and isinstance(st.body[0], ast.Try):
                t = st.body[0]
                if len(t.body) == 1 and isinstance(t.body[0], ast.Assign) and len(t.body[0].targets) == 1 and isinstance(t.body[0].value, ast.Call) and isinstance(t.body[0].value.func, ast.Name) and t.body[0].value.func.id == "next" and len(t.body[0].value.args) == 1 and isinstance(t.body[0].value.args[0], ast.Name) and len(t.handlers) == 1 and norm(t.handlers[0].type) == "StopIteration" and len(t.handlers[0].body) == 1 and isinstance(t.handlers[0].body[0], ast.Break) and not t.orelse and not t.finalbody:
                    it = t.body[0].value.args[0].id
                    rest = st.body[1:]
                    if not any(isinstance(x, ast.Name) and x.id == it for r in rest for x in ast.walk(r)):
                        out.append(ast.copy_location(ast.For(target=t.body[0].targets[0], iter=ast.Name(id=it, ctx=ast.Load()), body=rest or [ast.Pass()], orelse=[]), st))
                        changed[0] = True
                        continue
            out.append(st)
        return out

    root = copy.deepcopy(func.node)
    root.body = block(root.body)

    # primed form over an explicit iterator of a file / list (whose items are never None):
    #     it = iter(H); x = next(it, None); while x is not None: BODY; x = next(it, None)      ->   for x in H: BODY
    # (BODY without `continue` of its own, `it` used nowhere else, x not read after the loop)
    def primed(lst):
        i = 0
        while i + 2 < len(lst):
            a, b, w = lst[i], lst[i + 1], lst[i + 2]
            ok = isinstance(a, ast.Assign) and len(a.targets) == 1 and isinstance(a.targets[0], ast.Name) and isinstance(a.value, ast.Call) and norm(a.value.func) == "iter" and len(a.value.args) == 1
            if ok:
                it = a.targets[0].id

                def is_next(st_, var=None):
                    return isinstance(st_, ast.Assign) and len(st_.targets) == 1 and isinstance(st_.targets[0], ast.Name) and (var is None or st_.targets[0].id == var) and isinstance(st_.value, ast.Call) and norm(st_.value.func) == "next" and len(st_.value.args) == 2 and norm(st_.value.args[0]) == it and isinstance(st_.value.args[1], ast.Constant) and st_.value.args[1].value is None

                ok = is_next(b)
                if ok:
                    x = b.targets[0].id
                    ok = isinstance(w, ast.While) and not w.orelse and norm(w.test) == f"{x} is not None" and w.body and is_next(w.body[-1], x)
                    if ok:
                        body = w.body[:-1]
                        own_cont = any(isinstance(y, ast.Continue) for y in _own_level(body))
                        it_uses = sum(1 for y in ast.walk(root) if isinstance(y, ast.Name) and y.id == it)
                        x_after = any(isinstance(y, ast.Name) and y.id == x and isinstance(y.ctx, ast.Load) for st_ in lst[i + 3 :] for y in ast.walk(st_))
                        x_stored_in = any(isinstance(y, ast.Name) and y.id == x and isinstance(y.ctx, ast.Store) for st_ in body for y in ast.walk(st_))
                        if not own_cont and it_uses == 3 and not x_after and not x_stored_in:
                            new = ast.For(target=ast.Name(id=x, ctx=ast.Store()), iter=a.value.args[0], body=body or [ast.Pass()], orelse=[])
                            ast.copy_location(new, w)
                            lst[i : i + 3] = [new]
                            changed[0] = True
                            continue
            i += 1

    def _own_level(stmts):
        for st_ in stmts:
            yield st_
            if isinstance(st_, (ast.For, ast.While, ast.FunctionDef, ast.ClassDef)):
                continue
            for fld in ("body", "orelse", "finalbody"):
                sub = getattr(st_, fld, None)
                if isinstance(sub, list) and sub and isinstance(sub[0], ast.stmt):
                    yield from _own_level(sub)
            if isinstance(st_, ast.Try):
                for h in st_.handlers:
                    yield from _own_level(h.body)

    for parent in list(ast.walk(root)):
        for fld in ("body", "orelse", "finalbody"):
            lst = getattr(parent, fld, None)
            if isinstance(lst, list) and lst and isinstance(lst[0], ast.stmt):
                primed(lst)
    # it = <call>; for x in it: ...   (it read nowhere else)
    uses, stores = {}, {}
    for n in ast.walk(root):
        if isinstance(n, ast.Name):
            d = stores if isinstance(n.ctx, (ast.Store, ast.Del)) else uses
            d[n.id] = d.get(n.id, 0) + 1
    for lp in [n for n in ast.walk(root) if isinstance(n, ast.For) and isinstance(n.iter, ast.Name)]:
        nm = lp.iter.id
        if stores.get(nm) == 1 and uses.get(nm) == 1:
            for parent in ast.walk(root):
                for fld in ("body", "orelse", "finalbody"):
                    lst = getattr(parent, fld, None)
                    if isinstance(lst, list):
                        for i, st in enumerate(lst):
                            if isinstance(st, ast.Assign) and len(st.targets) == 1 and isinstance(st.targets[0], ast.Name) and st.targets[0].id == nm and isinstance(st.value, ast.Call) and lp in lst[i + 1 :]:
                                between = lst[i + 1 : lst.index(lp)]
                                if all(isinstance(b, (ast.Assign, ast.Expr)) and not any(isinstance(x, ast.Call) for x in ast.walk(b)) for b in between):
                                    lp.iter = st.value
                                    del lst[i]
                                    changed[0] = True
                                break
    if not changed[0]:
        return func
    ast.fix_missing_locations(root)
    return Func(func.module, func.qualname, root, func.cls, func.parent)


def fuse_split_loops(func):
    """A Func in which two loops over the same pure iterable with the same target, adjacent in one block (constant
    initialisations may stand between them), whose bodies are independent — neither reads or writes what the other writes,
    neither leaves its loop early — are written as the one loop they were split from:
        for x in S: A        for x in S:
        t = ''          ->       A
        for x in S: B            B          (with `t = ''` moved in front)"""
    import copy

    changed = [False]

    def rw(stmts):
        r, w = set(), set()
        for st in stmts:
            for x in ast.walk(st):
                if isinstance(x, ast.Name):
                    (w if isinstance(x.ctx, (ast.Store, ast.Del)) else r).add(x.id)
                if isinstance(x, (ast.Subscript, ast.Attribute)) and isinstance(x.ctx, (ast.Store, ast.Del)):
                    b = x
                    while isinstance(b, (ast.Subscript, ast.Attribute)):
                        b = b.value
                    if isinstance(b, ast.Name):
                        w.add(b.id)
                if isinstance(x, ast.Call) and isinstance(x.func, ast.Attribute) and x.func.attr in _MUTATORS:
                    b = x.func.value
                    while isinstance(b, (ast.Subscript, ast.Attribute)):
                        b = b.value
                    if isinstance(b, ast.Name):
                        w.add(b.id)
        return r, w

    def leaves(stmts):
        return bool(own_loop_jumps(stmts)) or any(isinstance(x, (ast.Return, ast.Yield, ast.YieldFrom)) for st in stmts for x in ast.walk(st))

    def pure_iter(e):
        return all(isinstance(x, (ast.Name, ast.Attribute, ast.Subscript, ast.Constant, ast.Load)) for x in ast.walk(e))

    def block(stmts):
        stmts = list(stmts)
        i = 0
        out = []
        while i < len(stmts):
            st = stmts[i]
            for fld in ("body", "orelse", "finalbody"):
                lst = getattr(st, fld, None)
                if isinstance(lst, list) and lst and isinstance(lst[0], ast.stmt) and not isinstance(st, (ast.FunctionDef, ast.AsyncFunctionDef, ast.ClassDef)):
                    setattr(st, fld, block(lst))
            if isinstance(st, ast.Try):
                for h in st.handlers:
                    h.body = block(h.body)
            if isinstance(st, ast.For) and not st.orelse and pure_iter(st.iter):
                j = i + 1
                inits = []
                while j < len(stmts) and isinstance(stmts[j], ast.Assign) and len(stmts[j].targets) == 1 and isinstance(stmts[j].targets[0], ast.Name) and isinstance(stmts[j].value, ast.Constant):
                    inits.append(stmts[j])
                    j += 1
                if j < len(stmts) and isinstance(stmts[j], ast.For) and not stmts[j].orelse and norm(stmts[j].target) == norm(st.target) and norm(stmts[j].iter) == norm(st.iter):
                    l2 = stmts[j]
                    tnames = {x.id for x in ast.walk(st.target) if isinstance(x, ast.Name)}
                    r1, w1 = rw(st.body)
                    r2, w2 = rw(l2.body)
                    it_names = {x.id for x in ast.walk(st.iter) if isinstance(x, ast.Name)}
                    init_names = {a.targets[0].id for a in inits}
                    ok = not leaves(st.body) and not leaves(l2.body)
                    ok = ok and not ((w1 - tnames) & (r2 | w2)) and not ((w2 - tnames) & r1) and not (it_names & (w1 | w2)) and not (init_names & (r1 | w1)) and not (tnames & (w1 | w2))
                    if ok:
                        fused = ast.copy_location(ast.For(target=st.target, iter=st.iter, body=st.body + l2.body, orelse=[]), st)
                        stmts[i : j + 1] = inits + [fused]
                        changed[0] = True
                        continue  # look at the same position again (the inits), then the fused loop may fuse further
            out.append(st)
            i += 1
        return out

    root = copy.deepcopy(func.node)
    root.body = block(root.body)
    if not changed[0]:
        return func
    ast.fix_missing_locations(root)
    return Func(func.module, func.qualname, root, func.cls, func.parent)


def fuse_staged_loops(func):
    """A Func in which a loop that only stages items for the loop after it
        L = []                                 for x in S:
        for x in S:                                A
            A                                      if c:
            if c: L.append(E)          ->              T = E
        [constant / empty-list inits]                  B
        for T in L:
            B
    is written as the single loop it stands for.  Conditions: L is used nowhere else; the append is the last thing the
    producer body does on its path; neither body leaves the function or breaks; B reads a name that A writes only when T
    binds it; A touches no name that B (or T, unless `T = E` is the identity on that name) writes; the inits in between
    are untouched by A."""
    import copy

    changed = [False]

    def rw(stmts):
        r, w = set(), set()
        for st in stmts:
            for x in ast.walk(st):
                if isinstance(x, ast.Name):
                    (w if isinstance(x.ctx, (ast.Store, ast.Del)) else r).add(x.id)
                if isinstance(x, (ast.Subscript, ast.Attribute)) and isinstance(x.ctx, (ast.Store, ast.Del)):
                    b = x
                    while isinstance(b, (ast.Subscript, ast.Attribute)):
                        b = b.value
                    if isinstance(b, ast.Name):
                        w.add(b.id)
                if isinstance(x, ast.Call) and isinstance(x.func, ast.Attribute) and x.func.attr in _MUTATORS:
                    b = x.func.value
                    while isinstance(b, (ast.Subscript, ast.Attribute)):
                        b = b.value
                    if isinstance(b, ast.Name):
                        w.add(b.id)
        return r, w

    def leaves(stmts, allow_continue=False):
        jumps = [j for j in own_loop_jumps(stmts) if not (allow_continue and isinstance(j, ast.Continue))]
        return bool(jumps) or any(isinstance(x, (ast.Return, ast.Yield, ast.YieldFrom)) for st in stmts for x in ast.walk(st))

    def tail_sites(body):
        """(list, index) of the statements in tail position of a body: its last statement, and recursively the last
        statement of each arm when that is an `if`"""
        if not body:
            return []
        last = body[-1]
        if isinstance(last, ast.If):
            return tail_sites(last.body) + tail_sites(last.orelse)
        return [(body, len(body) - 1)]

    uses = {}
    for x in ast.walk(func.node):
        if isinstance(x, ast.Name):
            uses[x.id] = uses.get(x.id, 0) + 1

    def block(stmts):
        stmts = list(stmts)
        for st in stmts:
            for fld in ("body", "orelse", "finalbody"):
                lst = getattr(st, fld, None)
                if isinstance(lst, list) and lst and isinstance(lst[0], ast.stmt) and not isinstance(st, (ast.FunctionDef, ast.AsyncFunctionDef, ast.ClassDef)):
                    setattr(st, fld, block(lst))
            if isinstance(st, ast.Try):
                for h in st.handlers:
                    h.body = block(h.body)
        i = 0
        while i + 2 < len(stmts) + 0:
            a, p = stmts[i], stmts[i + 1]
            ok = isinstance(a, ast.Assign) and len(a.targets) == 1 and isinstance(a.targets[0], ast.Name) and isinstance(a.value, ast.List) and not a.value.elts and isinstance(p, ast.For) and not p.orelse
            if not ok:
                i += 1
                continue
            L = a.targets[0].id
            j = i + 2
            inits = []
            while j < len(stmts) and isinstance(stmts[j], ast.Assign) and len(stmts[j].targets) == 1 and isinstance(stmts[j].targets[0], ast.Name) and (isinstance(stmts[j].value, ast.Constant) or (isinstance(stmts[j].value, (ast.List, ast.Dict)) and not getattr(stmts[j].value, "elts", getattr(stmts[j].value, "keys", None)))):
                inits.append(stmts[j])
                j += 1
            c = stmts[j] if j < len(stmts) else None
            if not (isinstance(c, ast.For) and not c.orelse and isinstance(c.iter, ast.Name) and c.iter.id == L and uses.get(L) == 3):
                i += 1
                continue
            sites = [(b, k) for b, k in tail_sites(p.body) if isinstance(b[k], ast.Expr) and isinstance(b[k].value, ast.Call) and norm(b[k].value.func) == f"{L}.append" and len(b[k].value.args) == 1]
            if len(sites) != 1:
                i += 1
                continue
            body, k = sites[0]
            E = body[k].value.args[0]
            T = c.target
            tn = {x.id for x in ast.walk(T) if isinstance(x, ast.Name)}
            ident = set()
            if isinstance(T, ast.Tuple) and isinstance(E, ast.Tuple) and len(T.elts) == len(E.elts):
                ident = {t.id for t, e in zip(T.elts, E.elts) if isinstance(t, ast.Name) and isinstance(e, ast.Name) and t.id == e.id}
            elif isinstance(T, ast.Name) and isinstance(E, ast.Name) and T.id == E.id:
                ident = {T.id}
            if isinstance(T, ast.Tuple) and not (isinstance(E, ast.Tuple) and len(T.elts) == len(E.elts)):
                i += 1
                continue
            saved = body[k]
            body[k] = ast.Pass()
            r1, w1 = rw(p.body)
            body[k] = saved
            pt = {x.id for x in ast.walk(p.target) if isinstance(x, ast.Name)}
            it = {x.id for x in ast.walk(p.iter) if isinstance(x, ast.Name)}
            r2, w2 = rw(c.body)
            w2 = w2 - tn
            a_touch = r1 | w1 | pt | it
            init_names = {x.targets[0].id for x in inits}
            ok = not leaves(p.body) and not leaves(c.body, allow_continue=True)
            ok = ok and ((w1 | pt) & r2) <= tn and not ((tn - ident) & a_touch) and not (w2 & a_touch) and not (init_names & a_touch) and L not in (r2 | w2 | tn)
            ok = ok and not any(isinstance(x, (ast.Lambda, ast.FunctionDef)) for st in p.body + c.body for x in ast.walk(st))
            if not ok:
                i += 1
                continue
            bind = []
            if not (tn <= ident and len(tn) == (len(T.elts) if isinstance(T, ast.Tuple) else 1)):
                bind = [ast.copy_location(ast.Assign(targets=[copy.deepcopy(T)], value=E, lineno=saved.lineno), saved)]
            body[k : k + 1] = bind + c.body
            stmts[i : j + 1] = inits + [p]
            changed[0] = True
        return stmts

    root = copy.deepcopy(func.node)
    root.body = block(root.body)
    if not changed[0]:
        return func
    ast.fix_missing_locations(root)
    return Func(func.module, func.qualname, root, func.cls, func.parent)


def inline_identity_calls(repo, func):
    """A Func in which a call `f(x)` of a program function whose whole body is `return <its parameter>` is written `x`."""
    import copy

    changed = [False]

    class T(ast.NodeTransformer):
        def visit_Call(self, c):
            self.generic_visit(c)
            if len(c.args) == 1 and not c.keywords and isinstance(c.func, (ast.Name, ast.Attribute)):
                callee = repo.resolve_call(func, c)
                if callee is not None:
                    body = [x for x in callee.node.body if not (isinstance(x, ast.Expr) and isinstance(x.value, ast.Constant))]
                    params = [p_ for p_ in callee.params if p_ != "self"]
                    if len(body) == 1 and isinstance(body[0], ast.Return) and isinstance(body[0].value, ast.Name) and len(params) == 1 and body[0].value.id == params[0]:
                        changed[0] = True
                        return c.args[0]
            return c

    root = T().visit(copy.deepcopy(func.node))
    if not changed[0]:
        return func
    ast.fix_missing_locations(root)
    return Func(func.module, func.qualname, root, func.cls, func.parent)


def desugar_dict_get(func):
    """A Func in which the "entry or None" idiom   x = D.get(K)   (single assignment, no default or default None) is
    written with the mapping itself:  `x is None` -> `K not in D`,  `x is not None` -> `K in D`,  other reads of x ->
    `D[K]`."""
    import copy

    defs = local_defs(func.node)
    stored = {}
    for n in ast.walk(func.node):
        if isinstance(n, ast.Name) and isinstance(n.ctx, (ast.Store, ast.Del)):
            stored[n.id] = stored.get(n.id, 0) + 1
    cands = {}
    for name, ds in defs.items():
        ds = [d_ for d_ in ds if d_ is not None] if stored.get(name, 0) == 1 else ds  # (a field of the entry updated in place is not a rebinding)
        if len(ds) != 1 or ds[0] is None or stored.get(name, 0) != 1 or name in func.params:
            continue
        d = ds[0]
        if isinstance(d, ast.Call) and isinstance(d.func, ast.Attribute) and d.func.attr == "get" and 1 <= len(d.args) <= 2 and not d.keywords and (len(d.args) == 1 or (isinstance(d.args[1], ast.Constant) and d.args[1].value is None)):
            if any(isinstance(x, ast.Call) for x in ast.walk(d.args[0])) or any(isinstance(x, ast.Call) for x in ast.walk(d.func.value)):
                continue
            cands[name] = (d.func.value, d.args[0])
    if not cands:
        return func

    class T(ast.NodeTransformer):
        def visit_Compare(self, node):
            if len(node.ops) == 1 and isinstance(node.left, ast.Name) and node.left.id in cands and isinstance(node.comparators[0], ast.Constant) and node.comparators[0].value is None and isinstance(node.ops[0], (ast.Is, ast.IsNot, ast.Eq, ast.NotEq)):
                dmap, key = cands[node.left.id]
                op = ast.NotIn() if isinstance(node.ops[0], (ast.Is, ast.Eq)) else ast.In()
                return ast.copy_location(ast.Compare(left=copy.deepcopy(key), ops=[op], comparators=[copy.deepcopy(dmap)]), node)
            return self.generic_visit(node)

        def visit_Name(self, node):
            if isinstance(node.ctx, ast.Load) and node.id in cands:
                dmap, key = cands[node.id]
                return ast.copy_location(ast.Subscript(value=copy.deepcopy(dmap), slice=copy.deepcopy(key), ctx=ast.Load()), node)
            return node

    root = T().visit(copy.deepcopy(func.node))
    ast.fix_missing_locations(root)
    return Func(func.module, func.qualname, root, func.cls, func.parent)


def rotate_primed_loops(func):
    """A Func in which a primed loop   A; while c: B; A   (A = the same statements, textually, before the loop and at the
    end of its body; no `continue` in B) is written in the rotated form   while True: A; if not c: break; B."""
    import copy

    changed = [False]

    def own_continue(stmts):
        for st in stmts:
            if isinstance(st, ast.Continue):
                return True
            if isinstance(st, (ast.For, ast.While, ast.FunctionDef, ast.AsyncFunctionDef, ast.ClassDef)):
                continue
            for fld in ("body", "orelse", "finalbody"):
                if own_continue(getattr(st, fld, []) or []):
                    return True
            if isinstance(st, ast.Try) and any(own_continue(h.body) for h in st.handlers):
                return True
        return False

    def block(stmts):
        out = []
        for st in stmts:
            for fld in ("body", "orelse", "finalbody"):
                lst = getattr(st, fld, None)
                if isinstance(lst, list) and lst and isinstance(lst[0], ast.stmt) and not isinstance(st, (ast.FunctionDef, ast.AsyncFunctionDef, ast.ClassDef)):
                    setattr(st, fld, block(lst))
            if isinstance(st, ast.Try):
                for h in st.handlers:
                    h.body = block(h.body)
            if isinstance(st, ast.While) and not st.orelse and not (isinstance(st.test, ast.Constant) and st.test.value is True):
                k = 0
                while k < len(out) and k < len(st.body) - 1 and norm(out[-1 - k]) == norm(st.body[-1 - k]) and isinstance(out[-1 - k], (ast.Assign, ast.Expr, ast.AugAssign)):
                    k += 1
                if k >= 1 and not own_continue(st.body[:-k]):
                    a = out[len(out) - k :]
                    del out[len(out) - k :]
                    brk = ast.copy_location(ast.If(test=ast.UnaryOp(op=ast.Not(), operand=st.test), body=[ast.Break()], orelse=[]), st)
                    new = ast.copy_location(ast.While(test=ast.Constant(value=True), body=a + [brk] + st.body[:-k], orelse=[]), st)
                    out.append(new)
                    changed[0] = True
                    continue
            if isinstance(st, ast.While) and not st.orelse and isinstance(st.test, ast.Constant) and st.test.value is True:
                # A; while True: B; A   (B leaves by break / return only, no continue)  ->  while True: A; B
                k = 0
                while k < len(out) and k < len(st.body) - 1 and norm(out[-1 - k]) == norm(st.body[-1 - k]) and isinstance(out[-1 - k], (ast.Assign, ast.Expr, ast.AugAssign)):
                    k += 1
                if k >= 1 and not own_continue(st.body[:-k]):
                    a = out[len(out) - k :]
                    del out[len(out) - k :]
                    out.append(ast.copy_location(ast.While(test=st.test, body=a + st.body[:-k], orelse=[]), st))
                    changed[0] = True
                    continue
            out.append(st)
        return out

    root = copy.deepcopy(func.node)
    root.body = block(root.body)
    if not changed[0]:
        return func
    ast.fix_missing_locations(root)
    return Func(func.module, func.qualname, root, func.cls, func.parent)


class _IfExpStmt(ast.NodeTransformer):
    namedtuples = {}

    def _split(self, st, val, rebuild):
        test = val.test
        a, b = rebuild(val.body), rebuild(val.orelse)
        node = ast.If(test=test, body=[self.visit(a)] if not isinstance(self.visit(a), list) else self.visit(a), orelse=[b])
        node.orelse = [x for y in node.orelse for x in (self.visit(y) if isinstance(self.visit(y), list) else [self.visit(y)])]
        return ast.copy_location(node, st)

    def visit_Assign(self, st):
        if isinstance(st.value, ast.IfExp):
            return self._split(st, st.value, lambda v: ast.copy_location(ast.Assign(targets=st.targets, value=v), st))
        v = st.value
        if isinstance(v, ast.BoolOp) and isinstance(v.op, ast.Or) and len(v.values) == 2 and isinstance(v.values[0], (ast.Name, ast.Attribute)):
            # x = a or b   ==   if a: x = a   else: x = b
            ife = ast.IfExp(test=v.values[0], body=v.values[0], orelse=v.values[1])
            return self._split(st, ife, lambda w: ast.copy_location(ast.Assign(targets=st.targets, value=w), st))
        nt = self.namedtuples.get(norm(v.func)) if isinstance(v, ast.Call) else None
        if nt is not None and len(st.targets) == 1 and isinstance(st.targets[0], ast.Tuple) and len(st.targets[0].elts) == len(nt) and not any(isinstance(a, ast.Starred) for a in v.args):
            # a, b = NT(x, y) / NT(f1=x, f2=y)  for a module-level namedtuple NT   ==   a, b = x, y
            vals = dict(zip(nt, v.args))
            for k in v.keywords:
                if k.arg:
                    vals[k.arg] = k.value
            if all(f_ in vals for f_ in nt):
                v = ast.copy_location(ast.Tuple(elts=[vals[f_] for f_ in nt], ctx=ast.Load()), v)
                st = ast.copy_location(ast.Assign(targets=st.targets, value=v), st)
        if len(st.targets) == 1 and isinstance(st.targets[0], ast.Tuple) and isinstance(v, ast.Tuple) and len(v.elts) == len(st.targets[0].elts) and all(isinstance(t, ast.Name) for t in st.targets[0].elts):
            # a, b = x, y  with x, y not reading a, b   ==   a = x; b = y
            tnames = {t.id for t in st.targets[0].elts}
            if not any(isinstance(n, ast.Name) and n.id in tnames for e in v.elts for n in ast.walk(e)):
                out = []
                for t, e in zip(st.targets[0].elts, v.elts):
                    r = self.visit(ast.copy_location(ast.Assign(targets=[t], value=e), st))
                    out.extend(r if isinstance(r, list) else [r])
                return out
        return st

    def visit_Return(self, st):
        if isinstance(st.value, ast.IfExp):
            return self._split(st, st.value, lambda v: ast.copy_location(ast.Return(value=v), st))
        return st

    @staticmethod
    def _call_with_ifexp_arg(call):
        """index of the single conditional-expression argument of `call` whose hoisting keeps the evaluation order (everything
        evaluated before it is a plain name / constant / access path), or None"""
        if not isinstance(call, ast.Call):
            return None
        idx = [i for i, a in enumerate(call.args) if isinstance(a, ast.IfExp)]
        if len(idx) != 1 or any(isinstance(k.value, ast.IfExp) for k in call.keywords):
            return None

        def plain(e):
            while isinstance(e, (ast.Attribute, ast.Subscript)):
                if isinstance(e, ast.Subscript) and not isinstance(e.slice, (ast.Constant, ast.Name, ast.Slice)):
                    return False
                e = e.value
            return isinstance(e, (ast.Name, ast.Constant))

        if not plain(call.func) or not all(plain(a) for a in call.args[: idx[0]]):
            return None
        return idx[0]

    def _split_call(self, st, call, i, rebuild):
        import copy

        ife = call.args[i]

        def with_arg(v):
            c2 = copy.deepcopy(call)
            c2.args[i] = v
            return rebuild(c2)

        return self._split(st, ife, with_arg)

    def visit_Expr(self, st):
        # (f if c else g)(args)   ==   if c: f(args)  else: g(args)
        if isinstance(st.value, ast.Call) and isinstance(st.value.func, ast.IfExp):
            import copy

            call = st.value

            def with_func(fn):
                c2 = copy.deepcopy(call)
                c2.func = fn
                return ast.copy_location(ast.Expr(value=c2), st)

            return self._split(st, call.func, with_func)
        # f(a, X if c else Y)   ==   if c: f(a, X)  else: f(a, Y)
        i = self._call_with_ifexp_arg(st.value)
        if i is not None:
            return self._split_call(st, st.value, i, lambda c2: ast.copy_location(ast.Expr(value=c2), st))
        return st

    def visit_With(self, st):
        # with (A if c else B) as h: BODY   ==   if c: h = A  else: h = B;  with h: BODY
        self.generic_visit(st)
        if len(st.items) == 1 and isinstance(st.items[0].context_expr, ast.IfExp) and isinstance(st.items[0].optional_vars, ast.Name):
            h = st.items[0].optional_vars
            ife = st.items[0].context_expr
            sel = ast.copy_location(ast.If(test=ife.test, body=[ast.copy_location(ast.Assign(targets=[ast.Name(id=h.id, ctx=ast.Store())], value=ife.body), st)], orelse=[ast.copy_location(ast.Assign(targets=[ast.Name(id=h.id, ctx=ast.Store())], value=ife.orelse), st)]), st)
            w = ast.copy_location(ast.With(items=[ast.withitem(context_expr=ast.Name(id=h.id, ctx=ast.Load()), optional_vars=None)], body=st.body), st)
            return [sel, w]
        return st

    def visit_FunctionDef(self, node):
        if getattr(self, "_root", None) is None:
            self._root = node
            self.generic_visit(node)
        return node

    visit_Lambda = lambda self, node: node  # noqa: E731


def desugar_ifexp(func):
    """A Func in which `x = a if c else b` / `return a if c else b` statements are written as if/else statements."""
    import copy

    tr = _IfExpStmt()
    tr.namedtuples = {}
    for name, e in func.module.consts.items():
        if isinstance(e, ast.Call) and norm(e.func).endswith("namedtuple") and len(e.args) >= 2 and isinstance(e.args[1], (ast.List, ast.Tuple)) and all(isinstance(x, ast.Constant) for x in e.args[1].elts):
            tr.namedtuples[name] = [x.value for x in e.args[1].elts]
    node = tr.visit(copy.deepcopy(func.node))
    if ast.dump(node) == ast.dump(func.node):
        return func
    ast.fix_missing_locations(node)
    return Func(func.module, func.qualname, node, func.cls, func.parent)


def de_enumerate(func):
    """A Func in which   for i, x in enumerate(IT[, start]): BODY   is written   i = start - 1; for x in IT: i += 1; BODY
    (the counter is stepped first, so a `continue` in BODY cannot skip it)."""
    import copy

    changed = [False]

    def block(stmts):
        out = []
        for st in stmts:
            for fld in ("body", "orelse", "finalbody"):
                lst = getattr(st, fld, None)
                if isinstance(lst, list) and lst and isinstance(lst[0], ast.stmt) and not isinstance(st, (ast.FunctionDef, ast.AsyncFunctionDef, ast.ClassDef)):
                    setattr(st, fld, block(lst))
            if isinstance(st, ast.Try):
                for h in st.handlers:
                    h.body = block(h.body)
            if isinstance(st, ast.For) and isinstance(st.iter, ast.Call) and isinstance(st.iter.func, ast.Name) and st.iter.func.id == "enumerate" and isinstance(st.target, ast.Tuple) and len(st.target.elts) == 2 and isinstance(st.target.elts[0], ast.Name) and st.iter.args:
                start = st.iter.args[1] if len(st.iter.args) > 1 else next((k.value for k in st.iter.keywords if k.arg == "start"), ast.Constant(value=0))
                if isinstance(start, ast.Constant) and isinstance(start.value, int):
                    cnt = st.target.elts[0].id
                    init = ast.copy_location(ast.Assign(targets=[ast.Name(id=cnt, ctx=ast.Store())], value=ast.Constant(value=start.value - 1)), st)
                    step = ast.copy_location(ast.AugAssign(target=ast.Name(id=cnt, ctx=ast.Store()), op=ast.Add(), value=ast.Constant(value=1)), st)
                    loop = ast.copy_location(ast.For(target=st.target.elts[1], iter=st.iter.args[0], body=[step] + st.body, orelse=st.orelse), st)
                    out += [init, loop]
                    changed[0] = True
                    continue
            out.append(st)
        return out

    root = copy.deepcopy(func.node)
    root.body = block(root.body)
    if not changed[0]:
        return func
    ast.fix_missing_locations(root)
    return Func(func.module, func.qualname, root, func.cls, func.parent)


def hoist_calls(repo, func):
    """A Func in which calls of same-module multi-statement helpers that sit inside a larger expression of an
    assignment / return / expression statement (`xs = f(a) + f(b)`) are bound to fresh temporaries first, left to right
    (`t1 = f(a); t2 = f(b); xs = t1 + t2`), so that the statement-level inliner can reach them."""
    import copy

    changed = [False]
    counter = [0]

    def inlinable(call):
        callee = repo.resolve_call(func, call)
        if callee is None or callee.module is not func.module or same_func(callee, func):
            return False
        body = [x for x in callee.node.body if not (isinstance(x, ast.Expr) and isinstance(x.value, ast.Constant))]
        return len(body) >= 2 and not any(isinstance(x, (ast.Yield, ast.YieldFrom)) for x in ast.walk(callee.node))

    def block(stmts):
        out = []
        for st in stmts:
            for fld in ("body", "orelse", "finalbody"):
                lst = getattr(st, fld, None)
                if isinstance(lst, list) and lst and isinstance(lst[0], ast.stmt) and not isinstance(st, (ast.FunctionDef, ast.AsyncFunctionDef, ast.ClassDef)):
                    setattr(st, fld, block(lst))
            if isinstance(st, ast.Try):
                for h in st.handlers:
                    h.body = block(h.body)
            if isinstance(st, ast.For) and isinstance(st.iter, ast.Call) and inlinable(st.iter) and not any(isinstance(x, (ast.Yield, ast.YieldFrom)) for x in ast.walk(repo.resolve_call(func, st.iter).node)):
                # for x in helper(...):   ==   t = helper(...); for x in t:   (the iterable is evaluated once, before the loop)
                counter[0] += 1
                nm = f"hoisted__{counter[0]}"
                out.append(ast.copy_location(ast.Assign(targets=[ast.Name(id=nm, ctx=ast.Store())], value=st.iter), st))
                st.iter = ast.copy_location(ast.Name(id=nm, ctx=ast.Load()), st.iter)
                changed[0] = True
            if isinstance(st, (ast.Assign, ast.Return, ast.Expr, ast.AugAssign)) and st.value is not None:
                pre = []
                top = st.value if isinstance(st.value, ast.Call) else None

                class H(ast.NodeTransformer):
                    def visit_Call(self, node):
                        self.generic_visit(node)
                        if node is not top and inlinable(node):
                            counter[0] += 1
                            nm = f"hoisted__{counter[0]}"
                            pre.append(ast.copy_location(ast.Assign(targets=[ast.Name(id=nm, ctx=ast.Store())], value=node), st))
                            return ast.copy_location(ast.Name(id=nm, ctx=ast.Load()), node)
                        return node

                    def visit_Lambda(self, node):
                        return node

                    def visit_IfExp(self, node):
                        node.test = self.visit(node.test)
                        return node  # arms are evaluated conditionally: left alone

                    def visit_BoolOp(self, node):
                        node.values[0] = self.visit(node.values[0])
                        return node

                    def visit_ListComp(self, node):
                        return node

                    visit_GeneratorExp = visit_SetComp = visit_DictComp = visit_ListComp

                st.value = H().visit(st.value)
                if pre:
                    changed[0] = True
                    out.extend(pre)
            out.append(st)
        return out

    root = copy.deepcopy(func.node)
    root.body = block(root.body)
    if not changed[0]:
        return func
    ast.fix_missing_locations(root)
    return Func(func.module, func.qualname, root, func.cls, func.parent)


def fold_consts(func):
    """A Func in which look-ups of module-level literal tables with a constant key (`FROM_SIGN[0]`), comparisons of two
    constants and `if` / conditional expressions with a constant test are evaluated (the dead arm is dropped)."""
    import copy
    import operator

    consts = func.module.consts
    ops = {ast.Eq: operator.eq, ast.NotEq: operator.ne, ast.Lt: operator.lt, ast.LtE: operator.le, ast.Gt: operator.gt, ast.GtE: operator.ge}
    shadow = {x.id for x in ast.walk(func.node) if isinstance(x, ast.Name) and isinstance(x.ctx, ast.Store)} | set(func.params)

    class F(ast.NodeTransformer):
        def visit_Subscript(self, node):
            self.generic_visit(node)
            if isinstance(node.ctx, ast.Load) and isinstance(node.value, ast.Name) and node.value.id in consts and node.value.id not in shadow and isinstance(node.slice, ast.Constant):
                d = consts[node.value.id]
                if isinstance(d, ast.Dict):
                    for k, v in zip(d.keys, d.values):
                        if isinstance(k, ast.Constant) and k.value == node.slice.value and type(k.value) is type(node.slice.value) and isinstance(v, ast.Constant):
                            return ast.copy_location(ast.Constant(value=v.value), node)
            return node

        def visit_Compare(self, node):
            self.generic_visit(node)
            if len(node.ops) == 1 and isinstance(node.left, ast.Constant) and isinstance(node.comparators[0], ast.Constant) and type(node.ops[0]) in ops:
                try:
                    return ast.copy_location(ast.Constant(value=bool(ops[type(node.ops[0])](node.left.value, node.comparators[0].value))), node)
                except TypeError:
                    return node
            return node

        def visit_UnaryOp(self, node):
            self.generic_visit(node)
            if isinstance(node.op, ast.Not) and isinstance(node.operand, ast.Constant) and isinstance(node.operand.value, bool):
                return ast.copy_location(ast.Constant(value=not node.operand.value), node)
            return node

        def visit_IfExp(self, node):
            self.generic_visit(node)
            if isinstance(node.test, ast.Constant) and isinstance(node.test.value, bool):
                return node.body if node.test.value else node.orelse
            return node

        def visit_BoolOp(self, node):
            self.generic_visit(node)
            vals = []
            for v in node.values:
                if isinstance(v, ast.Constant) and isinstance(v.value, bool):
                    if isinstance(node.op, ast.Or):
                        if v.value:
                            return v if not vals else node  # `x or True`: x is still evaluated, keep as is
                        continue  # `False or x` == x
                    else:
                        if not v.value:
                            return v if not vals else node
                        continue  # `True and x` == x
                vals.append(v)
            if not vals:
                return ast.copy_location(ast.Constant(value=isinstance(node.op, ast.And)), node)
            if len(vals) == 1:
                return vals[0]
            node.values = vals
            return node

        def visit_If(self, node):
            self.generic_visit(node)
            if isinstance(node.test, ast.Constant) and isinstance(node.test.value, bool):
                arm = node.body if node.test.value else node.orelse
                return arm if arm else ast.copy_location(ast.Pass(), node)
            return node

    # straight-line propagation of `x = <constant>` into the statements that directly follow it in the same block (the
    # binding of a defaulted parameter of an inlined helper: `matches = None; matches = matches or rec.x`)
    class P(ast.NodeTransformer):
        def __init__(self, env):
            self.env = env

        def visit_Name(self, node):
            if isinstance(node.ctx, ast.Load) and node.id in self.env:
                return ast.copy_location(ast.Constant(value=self.env[node.id]), node)
            return node

        def visit_BoolOp(self, node):
            self.generic_visit(node)
            vals = list(node.values)
            while len(vals) > 1 and isinstance(vals[0], ast.Constant):
                v0 = vals[0].value
                if isinstance(node.op, ast.Or):
                    if v0:
                        return vals[0]
                    vals = vals[1:]
                else:
                    if not v0:
                        return vals[0]
                    vals = vals[1:]
            if len(vals) == 1:
                return vals[0]
            node.values = vals
            return node

    def block(stmts):
        env = {}
        out = []
        for st in stmts:
            for fld in ("body", "orelse", "finalbody"):
                lst = getattr(st, fld, None)
                if isinstance(lst, list) and lst and isinstance(lst[0], ast.stmt) and not isinstance(st, (ast.FunctionDef, ast.AsyncFunctionDef, ast.ClassDef)):
                    setattr(st, fld, block(lst))
            if isinstance(st, ast.Try):
                for h in st.handlers:
                    h.body = block(h.body)
            simple = isinstance(st, (ast.Assign, ast.Expr, ast.Return, ast.AugAssign))
            if env and simple and st.value is not None:
                st.value = P(env).visit(st.value)
            stored = {x.id for x in ast.walk(st) if isinstance(x, ast.Name) and isinstance(x.ctx, (ast.Store, ast.Del))}
            for nm in stored:
                env.pop(nm, None)
            if not simple:
                env = {}
            if isinstance(st, ast.Assign) and len(st.targets) == 1 and isinstance(st.targets[0], ast.Name) and isinstance(st.value, ast.Constant) and (st.value.value is None or isinstance(st.value.value, (bool, int, str))):
                env[st.targets[0].id] = st.value.value
            out.append(st)
        return out

    root = F().visit(copy.deepcopy(func.node))
    root.body = block(root.body)
    if ast.dump(root) == ast.dump(func.node):
        return func
    ast.fix_missing_locations(root)
    return Func(func.module, func.qualname, root, func.cls, func.parent)


def delist_unpack(func):
    """A Func in which a local list that is only built by `L = []`, n straight-line `L.append(e_k)` statements (each
    executed exactly once on every path that goes on: at block level, or in an `if` arm whose other arm always leaves)
    and then unpacked by `t_1, ..., t_n = L` is replaced by the assignments `t_k = e_k` at the append sites."""
    import copy

    node = copy.deepcopy(func.node)
    body = node.body
    for st in list(walk_stmts(body)):
        if not (isinstance(st, ast.Assign) and len(st.targets) == 1 and isinstance(st.targets[0], ast.Tuple) and isinstance(st.value, ast.Name) and all(isinstance(t, ast.Name) for t in st.targets[0].elts)):
            continue
        L = st.value.id
        uses = [n for n in ast.walk(node) if isinstance(n, ast.Name) and n.id == L]
        inits = [x for x in walk_stmts(body) if isinstance(x, ast.Assign) and len(x.targets) == 1 and isinstance(x.targets[0], ast.Name) and x.targets[0].id == L]
        apps = [x for x in walk_stmts(body) if isinstance(x, ast.Expr) and isinstance(x.value, ast.Call) and isinstance(x.value.func, ast.Attribute) and x.value.func.attr == "append" and isinstance(x.value.func.value, ast.Name) and x.value.func.value.id == L and len(x.value.args) == 1]
        if len(inits) != 1 or not (isinstance(inits[0].value, ast.List) and not inits[0].value.elts) or len(apps) != len(st.targets[0].elts) or len(uses) != 2 + len(apps):
            continue

        # every append runs exactly once before the unpack: walk the block of the unpack
        def once(stmts, acc):
            for x in stmts:
                if x is st:
                    return True
                if any(x is a for a in apps):
                    acc.append(x)
                elif isinstance(x, ast.If):
                    arms = [x.body, x.orelse]
                    live = [a for a in arms if not _always_returns(a) and not (a and isinstance(a[-1], (ast.Continue, ast.Break)))]
                    if any(any(y is a for a in apps) for y in ast.walk(x)):
                        if len(live) != 1:
                            return False
                        if any(any(y is a for a in apps) for arm in arms if arm is not live[0] for z in arm for y in ast.walk(z)):
                            return False
                        r = once(live[0], acc)
                        if r is not None and r is not True and r is not False:
                            pass
                        if r is False:
                            return False
                elif any(any(y is a for a in apps) for y in ast.walk(x)):
                    return False
            return None

        blk = None
        for n in ast.walk(node):
            for fld in ("body", "orelse", "finalbody"):
                lst = getattr(n, fld, None)
                if isinstance(lst, list) and any(x is st for x in lst):
                    blk = lst
        acc = []
        if blk is None or once(blk, acc) is not True or len(acc) != len(apps):
            continue
        for tgt, a in zip(st.targets[0].elts, acc):
            new = ast.copy_location(ast.Assign(targets=[ast.Name(id=tgt.id, ctx=ast.Store())], value=a.value.args[0]), a)
            for n in ast.walk(node):
                for fld in ("body", "orelse", "finalbody"):
                    lst = getattr(n, fld, None)
                    if isinstance(lst, list):
                        for i, x in enumerate(lst):
                            if x is a:
                                lst[i] = new
        blk[blk.index(st)] = ast.copy_location(ast.Pass(), st)
        ast.fix_missing_locations(node)
        return Func(func.module, func.qualname, node, func.cls, func.parent)
    return func


def inline_callable_aliases(func):
    """A Func in which a local bound to a plain callable name (`opener = gzip.open`) is replaced by that name where it is
    called later in the same block (until rebound): `opener(p, "rt")` -> `gzip.open(p, "rt")`."""
    import copy

    node = copy.deepcopy(func.node)
    changed = [False]

    class Sub(ast.NodeTransformer):
        def __init__(self, env):
            self.env = env

        def visit_Call(self, c):
            self.generic_visit(c)
            if isinstance(c.func, ast.Name) and c.func.id in self.env:
                c.func = copy.deepcopy(self.env[c.func.id])
                changed[0] = True
            return c

    def dotted(e):
        if isinstance(e, ast.Subscript):
            return isinstance(e.slice, (ast.Constant, ast.Name)) and dotted(e.value)
        return isinstance(e, ast.Name) or (isinstance(e, ast.Attribute) and dotted(e.value))

    def block(stmts, env):
        env = dict(env)
        for st in stmts:
            if isinstance(st, ast.Assign) and len(st.targets) == 1 and isinstance(st.targets[0], ast.Name) and dotted(st.value) and isinstance(st.value.ctx, ast.Load):
                env[st.targets[0].id] = st.value
                continue
            if isinstance(st, (ast.FunctionDef, ast.AsyncFunctionDef, ast.ClassDef)):
                continue
            has_blocks = False
            for fld in ("body", "orelse", "finalbody"):
                lst = getattr(st, fld, None)
                if isinstance(lst, list) and lst and isinstance(lst[0], ast.stmt):
                    has_blocks = True
            stored = {n.id for n in ast.walk(st) if isinstance(n, ast.Name) and isinstance(n.ctx, ast.Store)}
            for k in stored & set(env):
                del env[k]
            if not env:
                if has_blocks:
                    for fld in ("body", "orelse", "finalbody"):
                        lst = getattr(st, fld, None)
                        if isinstance(lst, list) and lst and isinstance(lst[0], ast.stmt):
                            block(lst, {})
                    for h in getattr(st, "handlers", []):
                        block(h.body, {})
                continue
            if has_blocks:
                # headers (tests, iterables, context managers) see the current bindings; nested blocks continue with them
                for fld in ("test", "iter", "items"):
                    v = getattr(st, fld, None)
                    if isinstance(v, ast.AST):
                        setattr(st, fld, Sub(env).visit(v))
                    elif isinstance(v, list):
                        for it in v:
                            Sub(env).visit(it)
                for fld in ("body", "orelse", "finalbody"):
                    lst = getattr(st, fld, None)
                    if isinstance(lst, list) and lst and isinstance(lst[0], ast.stmt):
                        block(lst, env)
                for h in getattr(st, "handlers", []):
                    block(h.body, env)
            else:
                Sub(env).visit(st)

    block(node.body, {})
    if not changed[0]:
        return func
    ast.fix_missing_locations(node)
    return Func(func.module, func.qualname, node, func.cls, func.parent)


def sink_into_branches(func):
    """A Func in which the statements that follow an if / elif / else chain, up to the last one that reads a name
    assigned in every arm of the chain, are moved (copied) into each arm:
        if a: x = A          if a: x = A; S(x)
        else: x = B    ->    else: x = B; S(x)
        S(x)
    and in which `x = E` immediately followed by `for v in x:` (x not used otherwise in that block) iterates E directly."""
    import copy

    changed = [False]

    def arms(st):
        """leaf statement lists of an if/elif/else chain (None if some arm is missing = no else)"""
        out = []
        cur = st
        while True:
            out.append(cur.body)
            if len(cur.orelse) == 1 and isinstance(cur.orelse[0], ast.If):
                cur = cur.orelse[0]
                continue
            if not cur.orelse:
                return None
            out.append(cur.orelse)
            return out

    def last_assigned(lst):
        names = set()
        for st in lst:
            if isinstance(st, ast.Assign) and len(st.targets) == 1 and isinstance(st.targets[0], ast.Name):
                names.add(st.targets[0].id)
        return names

    def block(stmts):
        stmts = list(stmts)
        i = 0
        out = []
        while i < len(stmts):
            st = stmts[i]
            for fld in ("body", "orelse", "finalbody"):
                lst = getattr(st, fld, None)
                if isinstance(lst, list) and lst and isinstance(lst[0], ast.stmt) and not isinstance(st, (ast.FunctionDef, ast.AsyncFunctionDef, ast.ClassDef)):
                    setattr(st, fld, block(lst))
            if isinstance(st, ast.Try):
                for h in st.handlers:
                    h.body = block(h.body)
            if isinstance(st, ast.If):
                a = arms(st)
                if a is not None and all(not _always_returns(x) and not any(isinstance(y, (ast.Continue, ast.Break)) for y in x) for x in a):
                    common = set.intersection(*[last_assigned(x) for x in a]) if a else set()
                    # only branch-selected values: names assigned in every arm and not before the chain in this block
                    rest = stmts[i + 1 :]
                    k = 0
                    for j, r in enumerate(rest):
                        if {n.id for n in ast.walk(r) if isinstance(n, ast.Name) and isinstance(n.ctx, ast.Store)} & common:
                            break  # the name is bound again: later reads see that binding, not the branch's
                        if {n.id for n in ast.walk(r) if isinstance(n, ast.Name) and isinstance(n.ctx, ast.Load)} & common:
                            k = j + 1
                    if common and k and all(isinstance(r, (ast.For, ast.Expr, ast.Assign, ast.With)) for r in rest[:k]) and sum(len(list(ast.walk(r))) for r in rest[:k]) < 400:
                        moved = rest[:k]
                        for x in a:
                            x.extend(copy.deepcopy(moved))
                        # re-run on the arms (adjacent x = E; for v in x)
                        cur = st
                        while True:
                            cur.body = block(cur.body)
                            if len(cur.orelse) == 1 and isinstance(cur.orelse[0], ast.If):
                                cur = cur.orelse[0]
                                continue
                            cur.orelse = block(cur.orelse)
                            break
                        out.append(st)
                        i += 1 + k
                        changed[0] = True
                        continue
            # x = E ; for v in x: ...   (x not read elsewhere in this block)
            if isinstance(st, ast.Assign) and len(st.targets) == 1 and isinstance(st.targets[0], ast.Name) and i + 1 < len(stmts) and isinstance(stmts[i + 1], ast.For) and isinstance(stmts[i + 1].iter, ast.Name) and stmts[i + 1].iter.id == st.targets[0].id and isinstance(st.value, ast.Call):
                x = st.targets[0].id
                uses = sum(1 for r in stmts[i + 1 :] for n in ast.walk(r) if isinstance(n, ast.Name) and n.id == x)
                if uses == 1:
                    lp = stmts[i + 1]
                    lp.iter = st.value
                    changed[0] = True
                    i += 1
                    continue
            out.append(st)
            i += 1
        return out

    root = copy.deepcopy(func.node)
    root.body = block(root.body)
    if not changed[0]:
        return func
    ast.fix_missing_locations(root)
    return Func(func.module, func.qualname, root, func.cls, func.parent)


def namedtuple_tables(repo):
    """module -> {name: [fields]} of the module-level namedtuples (collections.namedtuple and typing.NamedTuple classes);
    plus the set of field names that are *unambiguous*: they name the same position in every namedtuple that has them
    and are not attributes of any program class."""
    tables = {}
    for mname, mod in repo.modules.items():
        t = {}
        for name, e in mod.consts.items():
            if isinstance(e, ast.Call) and norm(e.func).endswith("namedtuple") and len(e.args) >= 2:
                a1 = e.args[1]
                if isinstance(a1, (ast.List, ast.Tuple)) and all(isinstance(x, ast.Constant) for x in a1.elts):
                    t[name] = [x.value for x in a1.elts]
                elif isinstance(a1, ast.Constant) and isinstance(a1.value, str):
                    t[name] = a1.value.replace(",", " ").split()
        for cname, cdef in mod.classes.items():
            if any(norm(b).endswith("NamedTuple") for b in cdef.bases):
                t[cname] = [st.target.id for st in cdef.body if isinstance(st, ast.AnnAssign) and isinstance(st.target, ast.Name)]
        tables[mname] = t
    pos = {}
    for t in tables.values():
        for fields in t.values():
            for i, fld in enumerate(fields):
                pos.setdefault(fld, set()).add(i)
    class_attrs = set()
    for mod in repo.modules.values():
        for f in mod.funcs.values():
            if f.cls is not None and f.cls not in tables.get(mod.name, {}):
                class_attrs.add(f.name)
                for x in ast.walk(f.node):
                    if isinstance(x, ast.Attribute) and isinstance(x.value, ast.Name) and x.value.id == "self":
                        class_attrs.add(x.attr)
        for cname, cdef in mod.classes.items():
            if cname in tables.get(mod.name, {}):
                continue
            for st in cdef.body:
                if isinstance(st, ast.AnnAssign) and isinstance(st.target, ast.Name):
                    class_attrs.add(st.target.id)
                if isinstance(st, ast.Assign):
                    for tg in st.targets:
                        for x in ast.walk(tg):
                            if isinstance(x, ast.Name):
                                class_attrs.add(x.id)
    unamb = {fld: next(iter(p_)) for fld, p_ in pos.items() if len(p_) == 1 and fld not in class_attrs}
    return tables, unamb


def detuple(repo, func, only=None):
    """A Func in which module-level namedtuples are plain tuples: `NT(a, b)` / `NT(f1=a, f2=b)` is the tuple `(a, b)`, and
    `x.f1` is `x[0]` for a field name that means one position in every namedtuple of the program and is not an attribute
    of a program class.  `only`: restrict to these namedtuple names."""
    import copy

    tables, unamb = namedtuple_tables(repo)
    visible = {}
    for name, fields in tables.get(func.module.name, {}).items():
        visible[name] = fields
    for local, tgt in func.module.imports.items():
        if "." in tgt:
            m_, n_ = tgt.rsplit(".", 1)
            if n_ in tables.get(m_, {}):
                visible[local] = tables[m_][n_]
    if only is not None:
        visible = {k: v for k, v in visible.items() if k in only}
    fields_ok = {fld: i for fld, i in unamb.items() if any(fld in v for v in visible.values())}
    if not visible:
        return func

    class T(ast.NodeTransformer):
        def visit_Call(self, node):
            self.generic_visit(node)
            nm = norm(node.func)
            if nm in visible and not any(isinstance(a, ast.Starred) for a in node.args) and all(k.arg for k in node.keywords):
                fields = visible[nm]
                vals = dict(zip(fields, node.args))
                for k in node.keywords:
                    vals[k.arg] = k.value
                if all(fld in vals for fld in fields):
                    return ast.copy_location(ast.Tuple(elts=[vals[fld] for fld in fields], ctx=ast.Load()), node)
            return node

        def visit_Attribute(self, node):
            self.generic_visit(node)
            if isinstance(node.ctx, ast.Load) and node.attr in fields_ok and not (isinstance(node.value, ast.Name) and node.value.id == "self"):
                return ast.copy_location(ast.Subscript(value=node.value, slice=ast.Constant(value=fields_ok[node.attr]), ctx=ast.Load()), node)
            return node

    root = T().visit(copy.deepcopy(func.node))
    if ast.dump(root) == ast.dump(func.node):
        return func
    ast.fix_missing_locations(root)
    return Func(func.module, func.qualname, root, func.cls, func.parent)


def desugar_comprehensions(func, kinds=("extend", "assign", "aug", "update")):
    """A Func in which   X.extend(E for v in IT if C)   /   X = [E for v in IT if C]   /   X += [E for ...]   (one
    generator) are written as loops that append, and   D.update((k, v) for ...)   as a loop of stores."""
    import copy

    changed = [False]

    def loop_of(comp, recv, at):
        g = comp.generators[0]
        app = ast.Expr(value=ast.Call(func=ast.Attribute(value=ast.Name(id=recv, ctx=ast.Load()), attr="append", ctx=ast.Load()), args=[comp.elt], keywords=[]))
        body = [app]
        for c in reversed(g.ifs):
            body = [ast.If(test=c, body=body, orelse=[])]
        lp = ast.For(target=g.target, iter=g.iter, body=body, orelse=[])
        ast.copy_location(lp, at)
        for x in ast.walk(lp):
            if not hasattr(x, "lineno") and isinstance(x, (ast.stmt, ast.expr)):
                ast.copy_location(x, comp)
        return lp

    def ok(comp):
        return isinstance(comp, (ast.ListComp, ast.GeneratorExp)) and len(comp.generators) == 1 and not comp.generators[0].is_async

    def block(stmts):
        out = []
        for st in stmts:
            for fld in ("body", "orelse", "finalbody"):
                lst = getattr(st, fld, None)
                if isinstance(lst, list) and lst and isinstance(lst[0], ast.stmt) and not isinstance(st, (ast.FunctionDef, ast.AsyncFunctionDef, ast.ClassDef)):
                    setattr(st, fld, block(lst))
            if isinstance(st, ast.Try):
                for h in st.handlers:
                    h.body = block(h.body)
            if "extend" in kinds and isinstance(st, ast.Expr) and isinstance(st.value, ast.Call) and isinstance(st.value.func, ast.Attribute) and st.value.func.attr == "extend" and isinstance(st.value.func.value, ast.Name) and len(st.value.args) == 1 and ok(st.value.args[0]):
                out.append(loop_of(st.value.args[0], st.value.func.value.id, st))
                changed[0] = True
                continue
            if "update" in kinds and isinstance(st, ast.Expr) and isinstance(st.value, ast.Call) and isinstance(st.value.func, ast.Attribute) and st.value.func.attr == "update" and isinstance(st.value.func.value, ast.Name) and len(st.value.args) == 1 and not st.value.keywords:
                # D.update((k, v) for ... in ...)  /  D.update({k: v for ... in ...}): one store per item
                a0 = st.value.args[0]
                kv = None
                if ok(a0) and isinstance(a0.elt, ast.Tuple) and len(a0.elt.elts) == 2:
                    kv = (a0.elt.elts[0], a0.elt.elts[1])
                elif isinstance(a0, ast.DictComp) and len(a0.generators) == 1 and not a0.generators[0].is_async:
                    kv = (a0.key, a0.value)
                if kv is not None:
                    g = a0.generators[0]
                    store = ast.Assign(targets=[ast.Subscript(value=ast.Name(id=st.value.func.value.id, ctx=ast.Load()), slice=kv[0], ctx=ast.Store())], value=kv[1])
                    body = [store]
                    for c in reversed(g.ifs):
                        body = [ast.If(test=c, body=body, orelse=[])]
                    lp = ast.copy_location(ast.For(target=g.target, iter=g.iter, body=body, orelse=[]), st)
                    for x in ast.walk(lp):
                        if not hasattr(x, "lineno") and isinstance(x, (ast.stmt, ast.expr)):
                            ast.copy_location(x, a0)
                    out.append(lp)
                    changed[0] = True
                    continue
            if "assign" in kinds and isinstance(st, ast.Assign) and len(st.targets) == 1 and isinstance(st.targets[0], ast.Name) and isinstance(st.value, ast.ListComp) and ok(st.value) and st.targets[0].id not in {x.id for x in ast.walk(st.value) if isinstance(x, ast.Name)}:
                out.append(ast.copy_location(ast.Assign(targets=st.targets, value=ast.List(elts=[], ctx=ast.Load())), st))
                out.append(loop_of(st.value, st.targets[0].id, st))
                changed[0] = True
                continue
            if "aug" in kinds and isinstance(st, ast.AugAssign) and isinstance(st.op, ast.Add) and isinstance(st.target, ast.Name) and isinstance(st.value, ast.ListComp) and ok(st.value):
                out.append(loop_of(st.value, st.target.id, st))
                changed[0] = True
                continue
            out.append(st)
        return out

    root = copy.deepcopy(func.node)
    root.body = block(root.body)
    if not changed[0]:
        return func
    ast.fix_missing_locations(root)
    return Func(func.module, func.qualname, root, func.cls, func.parent)


def normal(repo, func, keep=None):
    """The standard normal form used by the path rules: helpers of the same module inlined at statement level (also
    generators consumed by a for loop), single-return helpers inlined at expression level, string constants folded,
    primed loops rotated, conditional expressions / `a or b` / parallel and namedtuple assignments written as statements,
    boolean temporaries and access-path aliases replaced by their definitions."""
    f = tail_inlined(repo, func, keep=keep)
    f = inlined(repo, f)
    f = with_str_consts(f)
    f = rotate_primed_loops(f)
    f = desugar_ifexp(f)
    f = inline_bool_temps(f)
    f = inline_access_aliases(f)
    return f


def normal_loops(repo, func, keep=None):
    """normal() plus comprehensions that fill a list written as loops."""
    return normal(repo, desugar_comprehensions(func), keep=keep)


def find_sniffer(repo, rule="E1"):
    """The function that detects compression from the content: it opens its argument in binary mode and compares the first
    bytes read with the gzip magic number (located by that shape, whatever it is called and wherever it lives)."""
    cands = []
    for f in repo.all_funcs():
        has_magic = any(isinstance(x, ast.Constant) and isinstance(x.value, bytes) and x.value.startswith(b"\x1f\x8b") for x in ast.walk(f.node))
        reads = any(isinstance(x, ast.Call) and isinstance(x.func, ast.Attribute) and x.func.attr == "read" for x in ast.walk(f.node))
        if has_magic and reads and len(f.params) >= 1:
            cands.append(f)
    if len(cands) != 1:
        byname = [f for f in repo.all_funcs() if f.name in ("is_file_gzipped", "is_gzipped")]
        if len(byname) == 1:
            return byname[0]
        raise AnalysisError(rule, "gaftools/", f"cannot find the function that sniffs the compression of a file ({len(cands)} candidates)")
    return cands[0]


def tag_grammar(repo, rule="E1"):
    """(module, tag pattern text, types table {letter: pattern text}, validator function) of the SAM-style tag grammar: a
    module-level dict from single type letters to regular expressions, the module-level pattern whose type class lists
    those letters, and the function that reads both — located by shape in whichever module they live."""
    for mod in repo.modules.values():
        for name, d in mod.consts.items():
            if isinstance(d, ast.Dict) and d.keys and all(isinstance(k, ast.Constant) and isinstance(k.value, str) and len(k.value) == 1 for k in d.keys) and all(isinstance(v, ast.Constant) and isinstance(v.value, str) for v in d.values) and {"A", "i", "f", "Z"} <= {k.value for k in d.keys}:
                types = {k.value: v.value for k, v in zip(d.keys, d.values)}
                pats = [(n2, e2) for n2, e2 in mod.consts.items() if isinstance(e2, ast.Constant) and isinstance(e2.value, str) and "AifZ" in e2.value.replace("[", "").replace("]", "")[0:60] or (isinstance(e2, ast.Constant) and isinstance(e2.value, str) and "[AifZHB]" in e2.value)]
                pats = [(n2, e2) for n2, e2 in pats if "(" not in e2.value]  # the validating pattern, not a capturing parser pattern
                users = [f for f in mod.funcs.values() if any(isinstance(x, ast.Subscript) and isinstance(x.value, ast.Name) and x.value.id == name for x in ast.walk(f.node))]
                if len(pats) >= 1 and users:
                    return mod, pats[0][0], pats[0][1], name, d, users[0]
    raise AnalysisError(rule, "gaftools/", "cannot find the tag grammar (type-letter table, tag pattern and validator)")


def inline_object_aliases(func):
    """A Func in which a local bound once to an attribute path of another local (`node_tags = node.tags`) is replaced by
    that path wherever it is used - also as the target of a subscript store or the receiver of a mutating call: both
    names denote the same object as long as neither the path's root nor the attribute is bound again, which is checked."""
    import copy

    node = copy.deepcopy(func.node)
    stores = {}
    for n in ast.walk(node):
        if isinstance(n, ast.Name) and isinstance(n.ctx, ast.Store):
            stores[n.id] = stores.get(n.id, 0) + 1
    attr_rebinds = {norm(n) for n in ast.walk(node) if isinstance(n, ast.Attribute) and isinstance(n.ctx, (ast.Store, ast.Del))}
    env = {}
    for st in walk_stmts(node.body):
        if isinstance(st, ast.Assign) and len(st.targets) == 1 and isinstance(st.targets[0], ast.Name) and isinstance(st.value, ast.Attribute):
            a = st.targets[0].id
            path = st.value
            root = path
            ok = True
            while isinstance(root, ast.Attribute):
                root = root.value
            if not isinstance(root, ast.Name) or stores.get(a, 0) != 1 or stores.get(root.id, 0) > 1 or root.id == a or a in func.params:
                continue
            if norm(path) in attr_rebinds:
                continue
            env[a] = (path, st)
    if not env:
        return func

    class R(ast.NodeTransformer):
        def visit_Name(self, n):
            if n.id in env and isinstance(n.ctx, ast.Load):
                return ast.copy_location(copy.deepcopy(env[n.id][0]), n)
            return n

    defs = {id(v[1]) for v in env.values()}
    for st in list(walk_stmts(node.body)):
        if id(st) in defs:
            continue
        R().visit(st)
    ast.fix_missing_locations(node)
    return Func(func.module, func.qualname, node, func.cls, func.parent)


def inline_single_use_generators(func):
    """A Func in which `g = (E for t in R)` (one clause, no filter) directly followed by `for x in g: B`, g used nowhere else,
    is written `for t in R: x = E; B`: the generator is consumed once, item by item, by the loop that follows it."""
    import copy

    node = copy.deepcopy(func.node)
    changed = [False]
    loads, stores = {}, {}
    for n in ast.walk(node):
        if isinstance(n, ast.Name):
            d_ = stores if isinstance(n.ctx, ast.Store) else loads
            d_[n.id] = d_.get(n.id, 0) + 1
    for parent in ast.walk(node):
        for fld in ("body", "orelse", "finalbody"):
            lst = getattr(parent, fld, None)
            if not (isinstance(lst, list) and lst and isinstance(lst[0], ast.stmt)):
                continue
            i = 0
            while i + 1 < len(lst):
                a, b = lst[i], lst[i + 1]
                if isinstance(a, ast.Assign) and len(a.targets) == 1 and isinstance(a.targets[0], ast.Name) and isinstance(a.value, ast.GeneratorExp) and len(a.value.generators) == 1 and not a.value.generators[0].ifs and isinstance(b, ast.For) and isinstance(b.iter, ast.Name) and b.iter.id == a.targets[0].id and loads.get(b.iter.id, 0) == stores.get(b.iter.id, 0) and not b.orelse:
                    g = a.value.generators[0]
                    bind = ast.Assign(targets=[b.target], value=a.value.elt)
                    ast.copy_location(bind, b)
                    new = ast.For(target=g.target, iter=g.iter, body=[bind] + b.body, orelse=[])
                    ast.copy_location(new, b)
                    lst[i : i + 2] = [new]
                    changed[0] = True
                    continue
                i += 1
    if not changed[0]:
        return func
    ast.fix_missing_locations(node)
    return Func(func.module, func.qualname, node, func.cls, func.parent)


def guard_clauses_to_else(func):
    """A Func in which, directly in a loop body, `if C: A; continue` followed by the statements B is written
    `if C: A else: B` (the same control flow: after A the iteration ends, B runs exactly when C is false); applied from
    the inside out, so a cascade of guard clauses becomes the nesting it abbreviates.  Returns func itself when nothing applies."""
    import copy

    node = copy.deepcopy(func.node)
    changed = [False]

    def tail(lst):
        i = 0
        while i < len(lst):
            st = lst[i]
            if isinstance(st, ast.If) and not st.orelse and st.body and isinstance(st.body[-1], ast.Continue) and i < len(lst) - 1 and not any(isinstance(x, ast.Continue) for b in st.body[:-1] for x in ast.walk(b)):
                rest = lst[i + 1 :]
                tail(rest)
                st.body = st.body[:-1] or [ast.copy_location(ast.Pass(), st)]
                st.orelse = rest
                del lst[i + 1 :]
                changed[0] = True
                return
            i += 1

    for lp in ast.walk(node):
        if isinstance(lp, (ast.For, ast.While)):
            tail(lp.body)
    if not changed[0]:
        return func
    ast.fix_missing_locations(node)
    return Func(func.module, func.qualname, node, func.cls, func.parent)


def plain_statements(func):
    """A Func with four statement-level spellings written out (each a pure syntactic equivalence):
      for m in map(F, xs): B            ->  for x__ in xs: m = F(x__); B
      P = re.compile(C) ... P.meth(a)   ->  re.meth(C, a)            (P a local bound once to a compiled literal pattern)
      a = b = v                         ->  a = v; b = v               (v a name or constant)
      d.setdefault(k, v)  (statement)   ->  if k not in d: d[k] = v    (k, v names / constants / access paths)"""
    import copy

    node = copy.deepcopy(func.node)
    changed = [False]
    stores = {}
    for n in ast.walk(node):
        if isinstance(n, ast.Name) and isinstance(n.ctx, ast.Store):
            stores[n.id] = stores.get(n.id, 0) + 1
    compiled = {}
    for st in walk_stmts(node.body):
        if isinstance(st, ast.Assign) and len(st.targets) == 1 and isinstance(st.targets[0], ast.Name) and stores.get(st.targets[0].id) == 1 and isinstance(st.value, ast.Call) and norm(st.value.func) == "re.compile" and len(st.value.args) == 1 and isinstance(st.value.args[0], ast.Constant) and isinstance(st.value.args[0].value, str) and not st.value.keywords:
            compiled[st.targets[0].id] = st.value.args[0]

    class Rx(ast.NodeTransformer):
        def visit_Call(self, c):
            self.generic_visit(c)
            if isinstance(c.func, ast.Attribute) and isinstance(c.func.value, ast.Name) and c.func.value.id in compiled and c.func.attr in ("match", "fullmatch", "search", "findall", "finditer", "split", "sub"):
                changed[0] = True
                return ast.copy_location(ast.Call(func=ast.Attribute(value=ast.Name(id="re", ctx=ast.Load()), attr=c.func.attr, ctx=ast.Load()), args=[copy.deepcopy(compiled[c.func.value.id])] + c.args, keywords=c.keywords), c)
            return c

        def visit_Attribute(self, a):
            self.generic_visit(a)
            return a

    def simple(e):
        while isinstance(e, (ast.Attribute, ast.Subscript)):
            if isinstance(e, ast.Subscript) and not isinstance(e.slice, (ast.Constant, ast.Name)):
                return False
            e = e.value
        return isinstance(e, (ast.Name, ast.Constant))

    counter = [0]
    # a name bound once to a generator expression (one generator) and consumed by exactly one `for v in NAME`
    lazy, lazy_src = {}, {}
    uses = {}
    for n in ast.walk(node):
        if isinstance(n, ast.Name) and isinstance(n.ctx, ast.Load):
            uses[n.id] = uses.get(n.id, 0) + 1
    for st in walk_stmts(node.body):
        if isinstance(st, ast.Assign) and len(st.targets) == 1 and isinstance(st.targets[0], ast.Name) and stores.get(st.targets[0].id) == 1 and isinstance(st.value, ast.GeneratorExp) and len(st.value.generators) == 1 and not st.value.generators[0].is_async and uses.get(st.targets[0].id) == 1:
            nm = st.targets[0].id
            if any(isinstance(l, ast.For) and isinstance(l.iter, ast.Name) and l.iter.id == nm and isinstance(l.target, ast.Name) for l in ast.walk(node)):
                gnames = {x.id for x in ast.walk(st.value.generators[0].target) if isinstance(x, ast.Name)}
                if not (gnames & (set(stores) - gnames)) or all(stores.get(x, 0) == 0 for x in gnames):
                    lazy[nm] = st.value
                    lazy_src[nm] = st.value

    def block(stmts):
        out = []
        for st in stmts:
            for fld in ("body", "orelse", "finalbody"):
                lst = getattr(st, fld, None)
                if isinstance(lst, list) and lst and isinstance(lst[0], ast.stmt) and not isinstance(st, (ast.FunctionDef, ast.AsyncFunctionDef, ast.ClassDef)):
                    setattr(st, fld, block(lst))
            if isinstance(st, ast.Try):
                for h in st.handlers:
                    h.body = block(h.body)
            if isinstance(st, ast.For) and isinstance(st.iter, ast.Call) and isinstance(st.iter.func, ast.Name) and st.iter.func.id == "map" and len(st.iter.args) == 2 and not st.iter.keywords and isinstance(st.target, ast.Name):
                counter[0] += 1
                x = f"item__{counter[0]}"
                fn, xs = st.iter.args
                bind = ast.copy_location(ast.Assign(targets=[ast.Name(id=st.target.id, ctx=ast.Store())], value=ast.Call(func=fn, args=[ast.Name(id=x, ctx=ast.Load())], keywords=[])), st)
                st.target = ast.Name(id=x, ctx=ast.Store())
                st.iter = xs
                st.body = [bind] + st.body
                changed[0] = True
            if isinstance(st, ast.For) and isinstance(st.iter, ast.Name) and st.iter.id in lazy and isinstance(st.target, ast.Name):
                # rows = (E for x in XS) ... for row in rows: B   ->   for x in XS: row = E; B
                g = lazy[st.iter.id].generators[0]
                bind = ast.copy_location(ast.Assign(targets=[ast.Name(id=st.target.id, ctx=ast.Store())], value=copy.deepcopy(lazy[st.iter.id].elt)), st)
                pre = [ast.copy_location(ast.If(test=ast.UnaryOp(op=ast.Not(), operand=copy.deepcopy(c)), body=[ast.Continue()], orelse=[]), st) for c in g.ifs]
                st.target = copy.deepcopy(g.target)
                st.iter = copy.deepcopy(g.iter)
                st.body = pre + [bind] + st.body
                changed[0] = True
            if isinstance(st, ast.Assign) and len(st.targets) == 1 and isinstance(st.targets[0], ast.Name) and st.targets[0].id in lazy and st.value is lazy_src.get(st.targets[0].id):
                changed[0] = True
                continue  # the generator expression now lives in the loop that consumed it
            if isinstance(st, ast.Assign) and len(st.targets) > 1 and isinstance(st.value, (ast.Name, ast.Constant)):
                for t in st.targets:
                    out.append(ast.copy_location(ast.Assign(targets=[t], value=copy.deepcopy(st.value)), st))
                changed[0] = True
                continue
            if isinstance(st, ast.Expr) and isinstance(st.value, ast.Call) and isinstance(st.value.func, ast.Attribute) and st.value.func.attr == "setdefault" and len(st.value.args) == 2 and not st.value.keywords and simple(st.value.func.value) and simple(st.value.args[0]) and (simple(st.value.args[1]) or (isinstance(st.value.args[1], ast.Call) and isinstance(st.value.args[1].func, ast.Name) and not st.value.args[1].keywords and all(simple(a) for a in st.value.args[1].args))):
                # (a value built by a constructor call over simple arguments is evaluated either way by setdefault; written
                # under the test it is evaluated only when stored — the same for a constructor without side effects)
                d, (k, v) = st.value.func.value, st.value.args
                store = ast.copy_location(ast.Assign(targets=[ast.Subscript(value=copy.deepcopy(d), slice=copy.deepcopy(k), ctx=ast.Store())], value=v), st)
                out.append(ast.copy_location(ast.If(test=ast.Compare(left=copy.deepcopy(k), ops=[ast.NotIn()], comparators=[copy.deepcopy(d)]), body=[store], orelse=[]), st))
                changed[0] = True
                continue
            out.append(st)
        return out

    node.body = block(node.body)
    if compiled:
        node = Rx().visit(node)
    if not changed[0]:
        return func
    ast.fix_missing_locations(node)
    return Func(func.module, func.qualname, node, func.cls, func.parent)


def reaching_def(func_node, stmt, name):
    """The expression bound to `name` by the nearest preceding plain / parallel-tuple assignment in the statement list that
    contains `stmt` (or a list enclosing it), provided nothing in between can rebind the name; None when there is none."""
    chain = []

    def find(stmts, trail):
        for i, st in enumerate(stmts):
            if st is stmt:
                chain.extend(trail + [(stmts, i)])
                return True
            for fld in ("body", "orelse", "finalbody"):
                lst = getattr(st, fld, None)
                if isinstance(lst, list) and lst and isinstance(lst[0], ast.stmt) and find(lst, trail + [(stmts, i)]):
                    return True
            for h in getattr(st, "handlers", []) or []:
                if find(h.body, trail + [(stmts, i)]):
                    return True
        return False

    if not find(func_node.body, []):
        return None
    for stmts, i in reversed(chain):
        for st in reversed(stmts[:i]):
            stored = {x.id for x in ast.walk(st) if isinstance(x, ast.Name) and isinstance(x.ctx, (ast.Store, ast.Del))}
            if name not in stored:
                continue
            if isinstance(st, ast.Assign) and len(st.targets) == 1:
                t = st.targets[0]
                if isinstance(t, ast.Name) and t.id == name:
                    return st.value
                if isinstance(t, ast.Tuple) and isinstance(st.value, ast.Tuple) and len(t.elts) == len(st.value.elts):
                    for e, v in zip(t.elts, st.value.elts):
                        if isinstance(e, ast.Name) and e.id == name:
                            return v
            return None
        # entering an enclosing list: a loop around us could rebind the name later in its body
        owner = stmts[i]
        if isinstance(owner, (ast.For, ast.While)) and any(isinstance(x, ast.Name) and x.id == name and isinstance(x.ctx, (ast.Store, ast.Del)) for x in ast.walk(owner)):
            return None
    return None


def own_loop_jumps(body):
    """continue / break statements in `body` that belong to the loop whose body this is (not to a nested loop)."""
    out = []

    def go(stmts):
        for st in stmts:
            if isinstance(st, (ast.Continue, ast.Break)):
                out.append(st)
            elif isinstance(st, (ast.For, ast.While)):
                go(st.orelse)
            elif isinstance(st, (ast.FunctionDef, ast.AsyncFunctionDef, ast.ClassDef)):
                continue
            else:
                for fld in ("body", "orelse", "finalbody"):
                    lst = getattr(st, fld, None)
                    if isinstance(lst, list) and lst and isinstance(lst[0], ast.stmt):
                        go(lst)
                for h in getattr(st, "handlers", []) or []:
                    go(h.body)
                for c in getattr(st, "cases", []) or []:
                    go(c.body)

    go(body)
    return out


def make_resolver(stmts, depth=4):
    """res(expr) -> expr with the names that are bound exactly once in `stmts` (plain assignments; tuple targets unpacked
    from a name / subscript are read as its elements) replaced by their definitions, repeatedly.  Returns an AST."""
    import copy

    env = {}
    for st in walk_stmts(stmts):
        if isinstance(st, ast.Assign) and len(st.targets) == 1:
            t = st.targets[0]
            if isinstance(t, ast.Name):
                env.setdefault(t.id, []).append(st.value)
            elif isinstance(t, ast.Tuple) and all(isinstance(e, ast.Name) for e in t.elts) and isinstance(st.value, ast.Tuple) and len(st.value.elts) == len(t.elts):
                for e, v in zip(t.elts, st.value.elts):
                    env.setdefault(e.id, []).append(v)
            elif isinstance(t, ast.Tuple) and all(isinstance(e, ast.Name) for e in t.elts) and isinstance(st.value, (ast.Subscript, ast.Name, ast.Call)):
                for k_, e in enumerate(t.elts):
                    env.setdefault(e.id, []).append(ast.Subscript(value=st.value, slice=ast.Constant(value=k_), ctx=ast.Load()))
        elif isinstance(st, (ast.AugAssign, ast.For)):
            for n in ast.walk(st.target):
                if isinstance(n, ast.Name):
                    env.setdefault(n.id, []).extend([None, None])
    env = {k: v[0] for k, v in env.items() if len(v) == 1 and v[0] is not None}

    class R(ast.NodeTransformer):
        def visit_Name(self, n):
            if isinstance(n.ctx, ast.Load) and n.id in env:
                return copy.deepcopy(env[n.id])
            return n

        def visit_Subscript(self, n):
            self.generic_visit(n)
            if isinstance(n.value, (ast.Tuple, ast.List)) and isinstance(n.slice, ast.Constant) and isinstance(n.slice.value, int) and not isinstance(n.slice.value, bool) and -len(n.value.elts) <= n.slice.value < len(n.value.elts) and not any(isinstance(x, ast.Starred) for x in n.value.elts):
                return n.value.elts[n.slice.value]
            return n

    def res(e):
        e = copy.deepcopy(e)
        for _ in range(depth):
            e2 = R().visit(copy.deepcopy(e))
            if ast.dump(e2) == ast.dump(e):
                break
            e = e2
        return ast.fix_missing_locations(e)

    return res


def regex_call(mod, call):
    """(method, pattern text, [subject args]) for `re.<m>(PATTERN, ...)` with a literal / module-constant pattern and for
    `COMPILED.<m>(...)` where COMPILED is a module-level `re.compile(PATTERN)`; None otherwise."""
    if not isinstance(call, ast.Call) or not isinstance(call.func, ast.Attribute):
        return None
    m = call.func.attr
    if m not in ("match", "fullmatch", "search", "findall", "split", "sub", "finditer"):
        return None
    base = call.func.value
    if isinstance(base, ast.Name) and base.id == "re" and call.args:
        p0 = call.args[0]
        if isinstance(p0, ast.Name) and p0.id in mod.consts:
            p0 = mod.consts[p0.id]
        if isinstance(p0, ast.Constant) and isinstance(p0.value, str):
            return (m, p0.value, list(call.args[1:]))
        return None
    if isinstance(base, ast.Name) and base.id in mod.consts:
        d = mod.consts[base.id]
        if isinstance(d, ast.Call) and norm(d.func) == "re.compile" and d.args and isinstance(d.args[0], ast.Constant) and isinstance(d.args[0].value, str):
            return (m, d.args[0].value, list(call.args))
    if isinstance(base, ast.Call) and len(base.args) == 1 and not base.keywords:
        # `re.compile(P).match(x)` and `compiled(P).match(x)` where `compiled` is a memo around re.compile of its one parameter
        is_compile = norm(base.func) == "re.compile"
        if not is_compile and isinstance(base.func, ast.Name) and base.func.id in mod.funcs:
            h = mod.funcs[base.func.id]
            ps = [p_ for p_ in h.params if p_ != "self"]
            calls_ = [c for c in ast.walk(h.node) if isinstance(c, ast.Call)]
            is_compile = len(ps) == 1 and bool(calls_) and all(norm(c.func) == "re.compile" and len(c.args) == 1 and norm(c.args[0]) == ps[0] and not c.keywords for c in calls_) and all(isinstance(r.value, (ast.Name, ast.Subscript, ast.Call)) for r in ast.walk(h.node) if isinstance(r, ast.Return))
        if is_compile:
            p0 = base.args[0]
            if isinstance(p0, ast.Name) and p0.id in mod.consts:
                p0 = mod.consts[p0.id]
            if isinstance(p0, ast.Constant) and isinstance(p0.value, str):
                return (m, p0.value, list(call.args))
    return None


def same_func(a, b):
    return a is not None and b is not None and a.module.name == b.module.name and a.qualname == b.qualname


def inlined(repo, func):
    """A Func whose node has the simple look-up helpers inlined (same module, same qualified name)."""
    f2 = Func(func.module, func.qualname, inline_simple_calls(repo, func), func.cls, func.parent)
    return f2


def parents_map(root):
    pm = {}
    for n in ast.walk(root):
        for c in ast.iter_child_nodes(n):
            pm[c] = n
    return pm


# --------------------------------------------------------------------------------------------
# reporting
# --------------------------------------------------------------------------------------------


@dataclass
class Instance:
    rule: str
    where: str
    what: str
    verdict: str  # holds | violated
    key: str = ""
    detail: dict = field(default_factory=dict)
    nontrivial: bool = True


class Ctx:
    """Collects the obligations of one check run for one property."""

    def __init__(self, prop, repo: Repo, tier="quick"):
        self.prop = prop
        self.repo = repo
        self.tier = tier
        self.instances: list[Instance] = []
        self.not_decided: list[str] = []
        self.assumptions: list[str] = []
        self.analysed: set[str] = set()
        self.expected_counts: dict[str, int] = {}
        self.notes: list[str] = []
        self.deferred: list[AnalysisError] = []
        self.soft_deferred: list[AnalysisError] = []
        self._soft = 0

    def run(self, rule_fn, *args, **kwargs):
        """Evaluate one rule.  A rule that turns out undecidable is recorded and the remaining rules are still
        evaluated: a violation established by any rule is reported whatever the order of evaluation, and a run in which
        some rule was undecidable and none was violated ends as ANALYSIS-ERROR (exit 2) all the same."""
        import re as _re

        # rules R<nn>.x read one model of the code (the converters, the sort function, the reader ...).  Once a rule of
        # a family could not recognise that code, the family's later rules would judge a half-understood model: they are
        # not evaluated (the run is undecidable anyway); rules of other families are.
        m_ = _re.match(r"r(\d\d)_", getattr(rule_fn, "__name__", ""))
        fam = f"R{m_.group(1)}" if m_ else None
        failed = {d.rule.split(".")[0] for d in self.deferred + self.soft_deferred}
        independent = kwargs.pop("_independent", False)  # the rule reads code of its own (not the model an earlier rule failed on)
        if fam is not None and fam in failed and not independent:
            self.notes.append(f"{rule_fn.__name__} not evaluated: an earlier rule of {fam} was undecidable on this tree")
            return None
        try:
            return rule_fn(self, *args, **kwargs)
        except AnalysisError as e:
            tgt = self.soft_deferred if self._soft else self.deferred
            if not any((d.rule, d.where, d.reason) == (e.rule, e.where, e.reason) for d in self.deferred + self.soft_deferred):
                tgt.append(e)
            return None

    def run_shared(self, bundle_fn, *args, **kwargs):
        """Evaluate the rules of a mechanism this property borrows from another property (see props/shared.py).  Their
        violations count here like any other.  If such a rule is undecidable on this tree, this property's own anchors are
        still intact: the rule is listed as not decided (evidence, NOT-DECIDED line) and the verdict rests on the other
        rules; the property that owns the mechanism fails closed (exit 2) on the same tree."""
        self._soft += 1
        try:
            return self.run(bundle_fn, *args, **kwargs)
        finally:
            self._soft -= 1

    def analysed_func(self, f: Func):
        self.analysed.add(f"{f.module.name}.{f.qualname}")

    def holds(self, rule, where, what, /, nontrivial=True, **detail):
        self.instances.append(Instance(rule, where, what, "holds", "", detail, nontrivial))

    def violated(self, rule, where, what, key, /, **detail):
        """key: construct key (qualified function + normalised construct), never a line number."""
        if any(i.verdict == "violated" and i.rule == rule and i.key == key for i in self.instances):
            return  # the same construct reached on several paths is one finding
        self.instances.append(Instance(rule, where, what, "violated", key, detail, True))

    def check(self, cond, rule, where, what, key=None, /, **detail):
        if cond:
            self.holds(rule, where, what, **detail)
        else:
            self.violated(rule, where, what, key or f"{where.split(' ', 1)[-1]}::{what}", **detail)
        return cond

    def require_count(self, rule, n_found, n_expected, where, what):
        """A rule that matches fewer sites than confirmed by hand fails closed."""
        if n_found < n_expected:
            raise AnalysisError(rule, where, f"{what}: matched {n_found} site(s), expected at least {n_expected} (anchor vanished or idiom not recognised)")

    def count(self, rule):
        return sum(1 for i in self.instances if i.rule == rule)


# --------------------------------------------------------------------------------------------
# known findings
# --------------------------------------------------------------------------------------------


def load_known():
    p = os.path.join(VERIF, "known_findings.json")
    if not os.path.exists(p):
        return {"open": [], "fixed": []}
    with open(p) as fh:
        return json.load(fh)


def squash(s):
    return re.sub(r"\s+", "", s).replace('"', "'")


def match_known(known, prop, inst: Instance):
    for e in known.get("open", []):
        if e.get("property") != prop or e.get("rule") != inst.rule:
            continue
        if squash(e.get("key", "")) == squash(inst.key):
            return e
    return None


# --------------------------------------------------------------------------------------------
# evidence + exit protocol
# --------------------------------------------------------------------------------------------


def finish(ctx: Ctx, t0, meta, seed=0):
    """Write evidence, print verdict lines, return the exit code."""
    known = load_known()
    new_viol = []
    known_hits = []
    for inst in ctx.instances:
        if inst.verdict == "violated":
            e = match_known(known, ctx.prop, inst)
            if e:
                known_hits.append((inst, e))
            else:
                new_viol.append(inst)

    ev_dir = os.environ.get("GV_EVIDENCE_DIR") or os.path.join(VERIF, "evidence")  # the override is used by the self-tests only
    os.makedirs(ev_dir, exist_ok=True)
    replay_paths = []
    if new_viol:
        rdir = os.path.join(ev_dir, "replay")
        os.makedirs(rdir, exist_ok=True)
        for k, inst in enumerate(new_viol):
            rp = os.path.join(rdir, f"{ctx.prop}-{k}.json")
            with open(rp, "w") as fh:
                json.dump(
                    {
                        "property": ctx.prop,
                        "rule": inst.rule,
                        "where": inst.where,
                        "what": inst.what,
                        "key": inst.key,
                        "detail": inst.detail,
                        "reproduce": f"cd /verif && /venv/bin/python -m gv check {ctx.prop} --tier {ctx.tier} --repo {ctx.repo.root}",
                    },
                    fh,
                    indent=1,
                    default=str,
                )
            replay_paths.append(rp)

    distinct = {(i.rule, i.where, i.what) for i in ctx.instances if i.nontrivial}
    per_rule = {}
    for i in ctx.instances:
        d = per_rule.setdefault(i.rule, {"instances": 0, "holds": 0, "violated": 0})
        d["instances"] += 1
        d[i.verdict] += 1
    samples = []
    seen_rules = set()
    for i in ctx.instances:  # one sample per rule first, then the violations
        if i.rule not in seen_rules or i.verdict == "violated":
            seen_rules.add(i.rule)
            samples.append({"rule": i.rule, "where": i.where, "obligation": i.what, "verdict": i.verdict, **({"detail": i.detail} if i.detail else {})})
    samples = samples[:60]

    evidence = {
        "property_id": ctx.prop,
        "tier": ctx.tier,
        "seed": seed,
        "level": "other",
        "coverage": {
            "explanation": meta.get("explanation", ""),
            "evaluations": len(ctx.instances),
            "distinct_nontrivial": len(distinct),
            "rule": "one evaluation = one rule instance (obligation) decided on a construct of /repo's current source; "
            "distinct = distinct (rule, site, obligation) triples; non-trivial = the obligation matched a real construct and had "
            "something to decide (a decision table with >=2 outcomes, a template with >=1 hole, a path rule with >=1 path)",
            "samples": json.loads(json.dumps(samples, default=str)),
            "obligations": len(ctx.instances),
            "discharged": sum(1 for i in ctx.instances if i.verdict == "holds"),
            "exhaustive": bool(meta.get("exhaustive", False)),
            "per_rule": per_rule,
            "analysed_functions": sorted(ctx.analysed),
            "not_decided": ctx.not_decided,
            "notes": ctx.notes,
            "repo_digest": ctx.repo.digest(),
            "known_findings_reported": [e.get("id", e.get("key")) for _, e in known_hits],
        },
        "assumptions": ctx.assumptions
        + [
            "Python semantics of the analysed fragment (comparisons, if/elif/else, for/while, try/except, string formatting)",
            "inputs are within the property's quantifier (valid rGFA / GAF)",
        ],
        "wall_s": round(time.time() - t0, 3),
        "violations": len(new_viol),
    }
    with open(os.path.join(ev_dir, f"{ctx.prop}.json"), "w") as fh:
        json.dump(evidence, fh, indent=1, default=str)

    for inst, e in known_hits:
        print(f"KNOWN-FINDING: property={ctx.prop} {e.get('id', '')} {e.get('what', inst.what)} [{inst.rule} at {inst.where}]")
    for inst, rp in zip(new_viol, replay_paths):
        print(f"VIOLATION property={ctx.prop} replay={rp}")
        print(f"  rule {inst.rule} at {inst.where}: {inst.what}")
        if inst.detail:
            print("  " + json.dumps(inst.detail, default=str)[:600])
    n_h = sum(1 for i in ctx.instances if i.verdict == "holds")
    print(f"{ctx.prop} [{ctx.tier}] {len(ctx.instances)} obligations over {len(ctx.analysed)} functions: {n_h} hold, {len(new_viol)} new violation(s), {len(known_hits)} known finding(s); {evidence['wall_s']} s")
    return 1 if new_viol else 0
