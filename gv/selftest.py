"""Self-validation of the checker (thorough tier; also `python -m gv selftest`).

Every rule family is tested both ways on variants of the *current* tree:

  break  — one instance of a rule is broken (operator flipped, statement dropped, table row changed ...);
           the variant still byte-compiles; the property's check must report it (exit 1)
  twin   — a behaviour-preserving rewrite; the check must stay silent (exit 0)

Variants are computed from /repo's current source by exact, unique text substitution inside one file
(a variant whose anchor text no longer occurs is skipped and listed as not applicable), written to a
scratch copy outside /repo and /verif (under /dev/shm or $TMPDIR, removed afterwards), byte-compiled and
analysed statically.  Nothing is executed.  The seeded changes under /verif/seeded (written by independent
sub-agents from the property text alone) are part of the battery when their patch still applies.
"""

from __future__ import annotations

import json
import os
import re
import shutil
import subprocess
import sys
import tempfile
from concurrent.futures import ThreadPoolExecutor

from .core import VERIF

PY = sys.executable

# (property, name, file, old, new)
BREAK = [
    # --- C01 / C02 / C03: interval tables, affine forms
    ("C01", "overlap-case1-strict", "gaftools/conversion.py", "if s <= int(query_start) < e:", "if s < int(query_start) < e:"),
    ("C01", "search-left-weak", "gaftools/utils.py", 'if query_end <= int(intervals[mid].tags["SO"][1]):', 'if query_end < int(intervals[mid].tags["SO"][1]) + 1:'),
    ("C01", "search-right-strict", "gaftools/utils.py", 'elif query_start >= int(intervals[mid].tags["SO"][1]) + int(intervals[mid].tags["LN"][1]):', 'elif query_start >= int(intervals[mid].tags["SO"][1]):'),
    ("C01", "merge-union-swapped", "gaftools/conversion.py", "node = StableNode(node1.contig_id, node2.start, node1.end)", "node = StableNode(node1.contig_id, node1.start, node2.end)"),
    ("C01", "merge-touch-side", "gaftools/conversion.py", 'if (orient1 == ">") and (node1.end != node2.start):', 'if (orient1 == ">") and (node1.start != node2.end):'),
    ("C01", "stable-reverse-offset", "gaftools/conversion.py", "new_start = out_node[0][0].start + gaf_line.path_length - gaf_line.path_end", "new_start = out_node[0][0].start + gaf_line.path_length - gaf_line.path_start"),
    ("C01", "stable-forward-offset", "gaftools/conversion.py", "new_start = out_node[0][0].start + gaf_line.path_start", "new_start = out_node[0][0].end + gaf_line.path_start"),
    ("C01", "unstable-minus-split", "gaftools/conversion.py", "new_start = new_total - gaf_line.path_end\n            new_end = new_total - gaf_line.path_start", "new_start = new_total - gaf_line.path_start\n            new_end = new_total - gaf_line.path_end"),
    ("C01", "unstable-plus-bare-end", "gaftools/conversion.py", "new_end = new_start + (gaf_line.path_end - gaf_line.path_start)", "new_end = new_start + gaf_line.path_end"),
    ("C01", "cigar-not-reversed", "gaftools/conversion.py", '    if reverse_flag and "cg:Z:" in gaf_line.tags:', '    if False and reverse_flag and "cg:Z:" in gaf_line.tags:'),
    ("C01", "cigar-reversed-always", "gaftools/conversion.py", '    if gaf_line.strand == "-" and "cg:Z:" in gaf_line.tags:', '    if "cg:Z:" in gaf_line.tags:'),
    ("C01", "length-not-contig", "gaftools/conversion.py", "new_total = contig_len[stable_coord]", "new_total = gaf_line.path_length"),
    ("C02", "generator-filters", "gaftools/conversion.py", "        yield to_unstable(gaf_line, reference)", "        if gaf_line.mapping_quality > 0:\n            yield to_unstable(gaf_line, reference)"),
    ("C02", "column-swap", "gaftools/conversion.py", "        gaf_line.residue_matches,\n        gaf_line.alignment_block_length,\n        gaf_line.mapping_quality,\n    )\n\n    # Add cigar in reverse\n    if reverse_flag", "        gaf_line.alignment_block_length,\n        gaf_line.residue_matches,\n        gaf_line.mapping_quality,\n    )\n\n    # Add cigar in reverse\n    if reverse_flag"),
    ("C03", "index-filter", "gaftools/cli/index.py", "                < int(query_end)\n                <= int(node.tags", "                < int(query_end)\n                < int(node.tags"),
    ("C03", "get-path-default", "gaftools/cli/index.py", "path = gfa_file.get_path(contig, throw_warning=False)", "path = gfa_file.get_path(contig)"),
    ("C03", "tell-after-read", "gaftools/cli/index.py", "        offset = gaf_file.tell()\n        mapping = gaf_file.readline()", "        mapping = gaf_file.readline()\n        offset = gaf_file.tell()"),
    ("C03", "split-one-orientation", "gaftools/cli/index.py", 'alignment = list(re.split(">|<", val[5]))[1:]', 'alignment = list(re.split(">", val[5]))[1:]'),
    ("C03", "key-end", "gaftools/cli/index.py", 'int(nodes[a].tags["SO"][1]) + int(nodes[a].tags["LN"][1]),\n                    )\n                ].append(offset)', 'int(nodes[a].tags["LN"][1]),\n                    )\n                ].append(offset)'),
    # --- C04 / C05
    ("C04", "no-dedupe", "gaftools/cli/view.py", "        offsets = set()\n        for nd in nodes:\n            if nd in ind_dict:\n                offsets.update(ind[ind_dict[nd]])\n        offsets = sorted(offsets)", "        offsets = []\n        for nd in nodes:\n            if nd in ind_dict:\n                offsets.extend(ind[ind_dict[nd]])\n        offsets = sorted(offsets)"),
    ("C04", "no-sort", "gaftools/cli/view.py", "        offsets = sorted(offsets)", "        offsets = list(offsets)"),
    ("C04", "unguarded-lookup", "gaftools/cli/view.py", "            if nd in ind_dict:\n                offsets.update(ind[ind_dict[nd]])", "            offsets.update(ind[ind_dict[nd]])"),
    ("C04", "no-empty-report", "gaftools/cli/view.py", "        if len(offsets) == 0:\n            raise CommandLineError", "        if len(offsets) < 0:\n            raise CommandLineError"),
    ("C04", "aux-args-differ", "gaftools/cli/view.py", "print(to_stable(line, gfa_nodes, ref_contig, contig_len), file=writer)", "print(to_stable(line, gfa_nodes, [], contig_len), file=writer)"),
    ("C05", "region-end-strict", "gaftools/cli/view.py", "if nd[2] <= q_e and q_s < nd[3]:", "if nd[2] < q_e and q_s < nd[3]:"),
    ("C05", "region-start-weak", "gaftools/cli/view.py", "if nd[2] <= q_e and q_s < nd[3]:", "if nd[2] <= q_e and q_s <= nd[3]:"),
    ("C05", "first-node-only", "gaftools/cli/view.py", "        for nd in node:\n            result.append(nd[0])", "        result.append(node[0][0])"),
    # --- C06 / C18 / C07
    ("C06", "bo-step-in-bubble", "gaftools/cli/order_gfa.py", "                node_order[n] = (bo, i + 1)\n", "                node_order[n] = (bo, i + 1)\n                bo += 1\n"),
    ("C06", "no-start-at-one", "gaftools/cli/order_gfa.py", "node_order[n] = (bo, i + 1)", "node_order[n] = (bo, i)"),
    ("C06", "orientation-flipped", "gaftools/cli/order_gfa.py", "if coordinates[0] > coordinates[-1]:", "if coordinates[0] < coordinates[-1]:"),
    ("C06", "sorted-order", "gaftools/cli/order_gfa.py", "for chromosome in chromosome_order:", "for chromosome in sorted(chromosome_order):"),
    ("C06", "reads-old-tags", "gaftools/cli/order_gfa.py", "    coordinates = list(int(new_graph[n].tags[\"SO\"][1]) for n in traversal_scaffold_only)", "    coordinates = list(int(new_graph[n].tags.get(\"BO\", new_graph[n].tags[\"SO\"])[1]) for n in traversal_scaffold_only)"),
    ("C18", "fail-returns-none", "gaftools/cli/order_gfa.py", "        # hacky but for now maybe ok\n        # the running BO counter is handed back unchanged so that the next chromosome can go on\n        return None, None, None, bo_start, None", "        # hacky but for now maybe ok\n        return None, None, None, None, None"),
    ("C18", "bare-assert", "gaftools/cli/order_gfa.py", "    for i in range(len(coordinates) - 1):\n        if not coordinates[i] < coordinates[i + 1]:", "    for i in range(len(coordinates) - 1):\n        assert coordinates[i] <= coordinates[i + 1] + 10**9\n        if not coordinates[i] < coordinates[i + 1]:"),
    ("C18", "csv-before-test", "gaftools/cli/order_gfa.py", "        # skip a chromosome if something went wrong\n        if scaffold_nodes:", "        out_csv.append(outdir + os.sep + chromosome + \".csv\")\n        # skip a chromosome if something went wrong\n        if scaffold_nodes:"),
    ("C07", "edir-row", "gaftools/gfa.py", '("-", "+"): (0, 0)', '("-", "+"): (0, 1)'),
    ("C07", "writer-row", "gaftools/gfa.py", '"\\t".join(["L", str(n1), "+", str(n[0]), "-", overlap] + tags)', '"\\t".join(["L", str(n1), "+", str(n[0]), "+", overlap] + tags)'),
    ("C07", "L-before-S", "gaftools/gfa.py", '            line = self.nodes[n].to_gfa_line()\n            f.write(line + "\\n")', '            line = self.nodes[n].to_gfa_line()\n            f.write("L\\t" + "\\n")\n            f.write(line + "\\n")'),
    ("C07", "bo-string-sort", "gaftools/gfa.py", "for bo in sorted(bo_ids, key=int):", "for bo in sorted(bo_ids):"),
    ("C07", "unbounded-split", "gaftools/utils.py", 'name, tag_type, value = tag.split(":", 2)', 'name, tag_type, value = tag.split(":")'),
    ("C07", "self-twice", "gaftools/gfa.py", "        self.write_gfa(\n            set_of_nodes=set_of_nodes,", "        self.write_gfa(\n            self,\n            set_of_nodes=set_of_nodes,"),
    # --- C08 / C09 / C10
    ("C08", "untagged-first", "gaftools/cli/sort.py", "    elif al2.BO == -1:\n        return -1", "    elif al2.BO == -1:\n        return 1"),
    ("C08", "no-repeats-bo", "gaftools/cli/sort.py", "    if al1.NO > al2.NO:\n        return 1", "    if al1.BO > al2.BO:\n        return 1"),
    ("C08", "start-sign", "gaftools/cli/sort.py", "    if al1.start < al2.start:\n        return -1", "    if al1.start < al2.start:\n        return 1"),
    ("C08", "anchor-last-forward", "gaftools/cli/sort.py", "        n = path[1]\n", "        n = path[-1]\n"),
    ("C08", "reverse-start", "gaftools/cli/sort.py", "        start = l - e\n", "        start = e\n"),
    ("C09", "tell-after-readline", "gaftools/cli/sort.py", "            offset = reader.tell()\n            line = reader.readline()", "            line = reader.readline()\n            offset = reader.tell()"),
    ("C09", "tag-order", "gaftools/cli/sort.py", '"\\tbo:i:%d\\tsn:Z:%s\\tiv:i:%d\\n" % (alignment.BO, alignment.sn, alignment.inv)', '"\\tbo:i:%d\\tsn:Z:%s\\tiv:i:%d\\n" % (alignment.NO, alignment.sn, alignment.inv)'),
    ("C09", "sn-any-rank", "gaftools/cli/sort.py", "        if sn is None and sr_tag == 0:", "        if sn is None:"),
    ("C09", "iv-or", "gaftools/cli/sort.py", 'if orient_list.count(">") != 0 and orient_list.count("<") != 0:', 'if orient_list.count(">") != 0 or orient_list.count("<") != 0:'),
    ("C10", "pop-no-default", "gaftools/cli/sort.py", 'index_dict.pop("unknown", None)', 'index_dict.pop("unknown")'),
    ("C10", "tell-after-write", "gaftools/cli/sort.py", "            write_to_file(line, writer)\n    if index_file is not None:", "            write_to_file(line, writer)\n            if index_file is not None:\n                index_dict[alignment.sn][1] = writer.tell()\n    if index_file is not None:"),
    ("C10", "gsi-name", "gaftools/cli/sort.py", 'index_file = outgaf + ".gsi"', 'index_file = outgaf + ".gvi"'),
    # --- C11 / C12 / C13
    ("C11", "stale-item", "gaftools/cli/realign.py", "                        # all processes exited cleanly, the rest of their output is still in the queue\n                        continue\n", "                        # all processes exited cleanly\n"),
    ("C11", "write-from-channel", "gaftools/cli/realign.py", "                    p_queue.put(out_string_obj)\n                    # output.write(out_string_obj)\n\n            for p in processes:", "                    p_queue.put(out_string_obj)\n                    output.write(out_string_obj.seq)\n\n            for p in processes:"),
    ("C11", "sentinel-in-loop", "gaftools/cli/realign.py", "            qu.put(PriorityAlignment(prior_counter, out_string + \"\\n\"))\n\n    qu.put(None)", "            qu.put(PriorityAlignment(prior_counter, out_string + \"\\n\"))\n            qu.put(None)\n\n    qu.put(None)"),
    ("C11", "rank-constant", "gaftools/cli/realign.py", "        seq_batch.append((line, ref, query, priority_counter))\n        priority_counter += 1", "        seq_batch.append((line, ref, query, priority_counter))"),
    ("C11", "remainder-dropped", "gaftools/cli/realign.py", "    if len(seq_batch) > 0:  # leftover alignments to re-align", "    if len(seq_batch) > batch_size:  # leftover alignments to re-align"),
    ("C12", "slice-swapped", "gaftools/cli/realign.py", "ref = path_sequence[line.path_start : line.path_end]", "ref = path_sequence[line.query_start : line.query_end]"),
    ("C12", "match-counts-mismatch", "gaftools/cli/realign.py", "                elif op_type == 8:\n                    mismatch += op_len", "                elif op_type == 8:\n                    match += op_len"),
    ("C12", "limit", "gaftools/cli/realign.py", "if gaf_line.query_end - gaf_line.query_start > 60_000:", "if gaf_line.query_end - gaf_line.query_start > 6_000:"),
    ("C12", "fetch-args", "gaftools/cli/realign.py", "fastafile.fetch(line.query_name, line.query_start, line.query_end)", "fastafile.fetch(line.query_name, line.path_start, line.path_end)"),
    ("C13", "exit-zero", "gaftools/cli/realign.py", '                            logger.error(\n                                "One of the processes had a none-zero exit code. One reason could be that one of the processes consumed too much memory and was killed"\n                            )\n                            sys.exit(1)', '                            logger.error(\n                                "One of the processes had a none-zero exit code. One reason could be that one of the processes consumed too much memory and was killed"\n                            )\n                            sys.exit()'),
    ("C13", "no-timeout", "gaftools/cli/realign.py", "out_string_obj = align_queue.get(timeout=0.1)", "out_string_obj = align_queue.get()"),
    ("C13", "all-alive", "gaftools/cli/realign.py", "    for p in processes:\n        if p.is_alive():\n            return True\n    return False", "    for p in processes:\n        if not p.is_alive():\n            return False\n    return True"),
    ("C13", "no-post-join-check", "gaftools/cli/realign.py", "        # a process can still die after it delivered all of its output\n        if not all_exited(processes):\n            logger.error(\"One of the processes had a none-zero exit code\")\n            sys.exit(1)\n        queue_len", "        queue_len"),
    # --- C14 / C15
    ("C14", "cases-row", "gaftools/gfa.py", '("<", "<"): ("start", 1),', '("<", "<"): ("start", 0),'),
    ("C14", "no-revcomp", "gaftools/gfa.py", "seq.append(rev_comp(self.nodes[n[1:]].seq))", "seq.append(self.nodes[n[1:]].seq[::-1])"),
    ("C14", "complement-table", "gaftools/utils.py", 'complement = str.maketrans("ACGT", "TGCA")', 'complement = str.maketrans("ACGT", "TCGA")'),
    ("C14", "partial-on-failure", "gaftools/gfa.py", '        if not self.path_exists(path):\n            return ""', '        if not self.path_exists(path):\n            return "".join(seq)\n        if False:\n            return ""'),
    ("C15", "one-sided-add", "gaftools/gfa.py", "        if node2_dir == 0:\n            self[node2].add_from_start(node1, node1_dir, overlap)\n        else:\n            self[node2].add_from_end(node1, node1_dir, overlap)", "        if node2_dir == 0:\n            self[node2].add_from_start(node1, node1_dir, overlap)"),
    ("C15", "mirror-wrong-side", "gaftools/gfa.py", "            self.nodes[n2].remove_from_start(n1, side1, overlap)", "            self.nodes[n2].remove_from_start(n1, side2, overlap)"),
    ("C15", "tags-not-purged", "gaftools/gfa.py", "        self.edge_tags.pop((n1, side1, n2, side2), None)\n        self.edge_tags.pop((n2, side2, n1, side1), None)", "        self.edge_tags.pop((n1, side1, n2, side2, overlap), None)"),
    ("C15", "raw-adjacency-write", "gaftools/gfa.py", "        del self.nodes[n_id]\n\n    def remove_edge", "        for other in self.nodes.values():\n            other.start.discard((n_id, 0, 0))\n        del self.nodes[n_id]\n\n    def remove_edge"),
    # --- C16 / C17 / C19 / C20
    ("C16", "value-class", "gaftools/gaf.py", '([ !-~]*)$", k)', '([!-~]*)$", k)'),
    ("C16", "all-columns", "gaftools/gaf.py", "for k in fields[12:]:", "for k in fields:"),
    ("C16", "writer-colon", "gaftools/gaf.py", 'line += "\\t%s%s" % (k, self.tags[k])', 'line += "\\t%s:%s" % (k, self.tags[k])'),
    ("C16", "invented-cg", "gaftools/gaf.py", "        if self.cigar:\n            self.tags[\"cg:Z:\"] = self.cigar", "        self.tags[\"cg:Z:\"] = self.cigar"),
    ("C16", "drop-other-tag", "gaftools/gaf.py", 'if pattern == "ds:Z:":', 'if pattern in ("ds:Z:", "dv:f:"):'),
    ("C17", "unsniffed", "gaftools/cli/sort.py", "    if utils.is_file_gzipped(gaf):\n        reader = libcbgzf.BGZFile(gaf, \"rb\")\n    else:\n        reader = open(gaf, \"r\")", "    reader = open(gaf, \"r\")"),
    ("C17", "suffix-sniff", "gaftools/utils.py", '        return inp.read(2) == b"\\x1f\\x8b"', '        return src.endswith(".gz")'),
    ("C17", "no-decode", "gaftools/cli/view.py", 'print(line.decode("utf-8").rstrip(), file=writer)', "print(line.rstrip(), file=writer)"),
    ("C17", "graph-suffix", "gaftools/gfa.py", 'opened_file = gzip.open(gfa_file_path, "rt")', 'opened_file = open(gfa_file_path, "r")'),
    ("C19", "tp-key", "gaftools/gaf.py", 'if pattern == "tp:A:" and val != "P":', 'if pattern == "tp:A" and val != "P":'),
    ("C19", "mapq-strict", "gaftools/cli/stat.py", "if not (mapping.is_primary) or (mapping.mapping_quality <= 0):", "if not (mapping.is_primary) or (mapping.mapping_quality < 0):"),
    ("C19", "last-writer-wins", "gaftools/cli/stat.py", "            if reads[mapping.query_name].highest_map_ratio < map_ratio:\n                reads[mapping.query_name].highest_map_ratio = map_ratio", "            reads[mapping.query_name].highest_map_ratio = map_ratio"),
    ("C19", "cigar-letter", "gaftools/cli/stat.py", 'elif all_cigars[cnt + 1] == "I":\n                    total_ins += 1', 'elif all_cigars[cnt + 1] == "I":\n                    total_del += 1'),
    ("C19", "aligned-bases-before-filter", "gaftools/cli/stat.py", "        if not (mapping.is_primary) or (mapping.mapping_quality <= 0):", "        total_aligned_bases += mapping.residue_matches\n        if not (mapping.is_primary) or (mapping.mapping_quality <= 0):"),
    ("C20", "literal-strand", "gaftools/cli/phase.py", "                gaf_line.strand,\n", '                "+",\n'),
    ("C20", "trailing-tab", "gaftools/cli/phase.py", '"\\tps:Z:%s-%s\\tht:Z:%s"', '"\\tps:Z:%s-%s\\tht:Z:%s\\t"'),
    ("C20", "ht-from-phase-set", "gaftools/cli/phase.py", "                    phase[gaf_line.query_name].phase_set,\n                    phase[gaf_line.query_name].haplotype,", "                    phase[gaf_line.query_name].haplotype,\n                    phase[gaf_line.query_name].phase_set,"),
    ("C20", "last-row-wins", "gaftools/cli/phase.py", "        if line_elements[0] not in phase:\n            tmp = Node", "        if True:\n            tmp = Node"),
    ("C20", "none-guard", "gaftools/cli/phase.py", 'if in_tsv and phase[gaf_line.query_name].haplotype != "none":', "if in_tsv:"),
    # --- depth rules added late: R01.8, R04.7, R05.8, R06.7, R07.10, R15.8
    ("C01", "view-node-end-no-start", "gaftools/cli/view.py", 'end=int(gfa_file[id].tags["SO"][1]) + int(gfa_file[id].tags["LN"][1]),', 'end=int(gfa_file[id].tags["LN"][1]),'),
    ("C01", "view-ref-rank", "gaftools/cli/view.py", "if gfa_file.contigs[contig] == 0]", "if gfa_file.contigs[contig] != 0]"),
    ("C04", "id-map-wrong-position", "gaftools/cli/view.py", "            ind_dict[i[0]] = i", "            ind_dict[i[1]] = i"),
    ("C05", "region-end-first-part", "gaftools/cli/view.py", 'end = [x.split(":")[1].split("-")[-1] for x in regions]', 'end = [x.split(":")[1].split("-")[0] for x in regions]'),
    ("C05", "region-contig-after-colon", "gaftools/cli/view.py", 'contig = [x.split(":")[0] for x in regions]', 'contig = [x.split(":")[1] for x in regions]'),
    ("C06", "majority-strict-min", "gaftools/cli/order_gfa.py", "            if most_freq <= count:", "            if most_freq >= count:"),
    ("C06", "majority-no-reset", "gaftools/cli/order_gfa.py", "        counts = count_sn(graph, comp)\n        most_freq = 0\n", "        counts = count_sn(graph, comp)\n"),
    ("C07", "s-line-tags-from-third", "gaftools/gfa.py", "                    self.add_node(line[1], line[2], line[3:])", "                    self.add_node(line[1], line[2], line[4:])"),
    ("C07", "overlap-written-bare", "gaftools/gfa.py", '                overlap = str(n[2]) + "M"\n\n                if n[0] in set_of_nodes:', '                overlap = str(n[2])\n\n                if n[0] in set_of_nodes:'),
    ("C07", "overlap-read-whole", "gaftools/gfa.py", "                e[4] = int(e[4][:-1])  # getting overlap", "                e[4] = int(e[4][1:])  # getting overlap"),
    ("C15", "components-no-reset", "gaftools/gfa.py", "        self.set_visited(False)\n        return connected_comp", "        return connected_comp"),
    ("C15", "component-one-side", "gaftools/gfa.py", "            neighbors = self.nodes[start].neighbors()\n            for n in neighbors:", "            neighbors = self.nodes[start].start\n            for n in neighbors:"),
    ("C15", "dfs-skips-add", "gaftools/gfa.py", "                dfs_out.add(s)\n                ordered_dfs_out.append(s)\n            else:", "                dfs_out.add(s)\n            else:"),
    # --- rules added after the third round of seeded changes
    ("C08", "majority-counts-raw-path", "gaftools/cli/sort.py", 'if orient_list.count(">") < orient_list.count("<"):', 'if path.count(">") < path.count("<"):'),
    ("C09", "inversion-counts-raw-path", "gaftools/cli/sort.py", 'if orient_list.count(">") != 0 and orient_list.count("<") != 0:', 'if path.count(">") != 0 and path.count("<") != 0:'),
    ("C16", "columns-stripped", "gaftools/gaf.py", '            fields = line.decode("utf-8").rstrip().split("\\t")\n', '            fields = line.decode("utf-8").rstrip().split("\\t")\n        fields = [f.strip() for f in fields]\n'),
    ("C16", "tags-dict-on-reader", "gaftools/gaf.py", "        tags = {}\n        for k in fields[12:]:", "        self.scratch = getattr(self, 'scratch', {})\n        tags = self.scratch\n        tags.clear()\n        for k in fields[12:]:"),
    ("C17", "chunked-read", "gaftools/gaf.py", "        for line in self.file:\n            yield self.parse_gaf_line(line)", "        for line in self.file.read().splitlines():\n            yield self.parse_gaf_line(line)"),
    ("C03", "index-split-whitespace", "gaftools/cli/index.py", '            val = mapping.rstrip().split("\\t")\n', "            val = mapping.split()\n"),
    ("C04", "merge-in-place", "gaftools/conversion.py", "        node = StableNode(node1.contig_id, node1.start, node2.end)", "        node2.start = node1.start\n        node = node2"),
    ("C05", "stale-node-list", "gaftools/cli/view.py", "        try:\n            node_list = node_dict[c]\n        except KeyError:\n", "        if c not in node_dict:\n"),
    ("C06", "bubble-by-block-size", "gaftools/cli/order_gfa.py", "        if len(bc_inside_nodes) == 0:", "        if len(bc) == 2:"),
    ("C14", "links-filtered-while-reading", "gaftools/gfa.py", '            elif line.startswith("L"):\n                edges.append(line)', '            elif line.startswith("L") and line.split("\\t")[1] in self and line.split("\\t")[3] in self:\n                edges.append(line)'),
    # --- rules that came with the repairs F-C15d / F-C06a and with the shared mechanism bundles
    ("C15", "bfs-marks-all", "gaftools/gfa.py", "        if reset_visited:\n            self.set_visited(False)", "        if reset_visited:\n            self.set_visited(reset_visited)"),
    ("C15", "components-stale-marks", "gaftools/gfa.py", "        # the marks of an earlier traversal (e.g. bfs) must not hide nodes from this one\n        self.set_visited(False)\n", ""),
    ("C06", "bubble-id-bare-index", "gaftools/cli/order_gfa.py", 'bubble_id = "bubble %d" % bubble_index', "bubble_id = str(bubble_index)"),
    ("C18", "bubble-id-bare-index", "gaftools/cli/order_gfa.py", 'bubble_id = "bubble %d" % bubble_index', "bubble_id = str(bubble_index)"),
    ("C03", "read-line-skips-offset-0", "gaftools/gaf.py", "        self.file.seek(offset)\n", "        if offset:\n            self.file.seek(offset)\n"),
    ("C16", "read-line-bounded", "gaftools/gaf.py", "return self.parse_gaf_line(self.file.readline())", "return self.parse_gaf_line(self.file.readline(65536))"),
    ("C20", "reader-skips-at-lines", "gaftools/gaf.py", "        for line in self.file:\n            yield self.parse_gaf_line(line)", "        for line in self.file:\n            if line[:1] in ('@', b'@'):\n                continue\n            yield self.parse_gaf_line(line)"),
    ("C07", "sequence-upper", "gaftools/gfa.py", "            node.seq = seq\n", "            node.seq = seq.upper()\n"),
    ("C04", "log-to-stdout", "gaftools/__main__.py", "handler = logging.StreamHandler()", "handler = logging.StreamHandler(sys.stdout)"),
    # --- blind spots shown by the mutation cross-reference (tools/mutants.py)
    ("C20", "run-skips-annotator", "gaftools/cli/phase.py", "    add_phase_info(gaf_file, tsv_file, output)\n", "    pass\n"),
    ("C20", "annotator-args-swapped", "gaftools/cli/phase.py", "add_phase_info(gaf_file, tsv_file, output)", "add_phase_info(tsv_file, gaf_file, output)"),
    ("C14", "main-does-not-run", "gaftools/cli/find_path.py", "    run(**vars(args))", "    pass"),
    ("C09", "output-append-mode", "gaftools/cli/sort.py", 'writer = open(outgaf, "w")', 'writer = open(outgaf, "a")'),
    ("C09", "sn-guard-or", "gaftools/cli/sort.py", "        if sn is None and sr_tag == 0:", "        if sn is None or sr_tag == 0:"),
    ("C10", "sn-guard-or", "gaftools/cli/sort.py", "        if sn is None and sr_tag == 0:", "        if sn is None or sr_tag == 0:"),
    ("C06", "bridge-edge-dropped", "gaftools/cli/order_gfa.py", '            scaffold_graph.add_edge(node1, "+", node2, "+", 0)\n', "            pass\n"),
    ("C18", "bridge-ends-flipped", "gaftools/cli/order_gfa.py", "            if len(bc_end_nodes) != 2:", "            if len(bc_end_nodes) == 2:"),
    ("C06", "single-node-no", "gaftools/cli/order_gfa.py", "{node: (bo_start, 0)}", "{node: (bo_start, 1)}"),
    ("C07", "concat-list-not-filled", "gaftools/cli/order_gfa.py", "            out_gfa.append(f_gfa)\n", ""),
    ("C19", "counter-starts-at-one", "gaftools/cli/stat.py", "    total_aligned_bases = 0\n", "    total_aligned_bases = 1\n"),
    ("C19", "map-ratio-product", "gaftools/cli/stat.py", "map_ratio = float(mapping.query_end - mapping.query_start) / (mapping.query_length)", "map_ratio = float(mapping.query_end - mapping.query_start) * (mapping.query_length)"),
    ("C19", "identity-sum", "gaftools/cli/stat.py", "map_ratio = float(mapping.query_end - mapping.query_start) / (mapping.query_length)", "map_ratio = float(mapping.query_end + mapping.query_start) / (mapping.query_length)"),
    ("C15", "isolated-node-lost", "gaftools/gfa.py", "            cc.add(start_node)\n            return cc", "            return cc"),
    ("C15", "root-children-not-counted", "gaftools/gfa.py", "                        root_children += 1\n", ""),
    ("C15", "root-needs-three", "gaftools/gfa.py", "            if root_children > 1:", "            if root_children > 2:"),
    ("C06", "root-children-not-counted", "gaftools/gfa.py", "                        root_children += 1\n", ""),
    ("C19", "maximum-never-stored", "gaftools/cli/stat.py", "                reads[mapping.query_name].highest_seq_identity = seq_identity", "                pass"),
]

TWIN = [
    # e == qe is already accepted by the second case, so weakening the third case changes nothing (equivalent mutant)
    ("C01", "overlap-case3-weak-equivalent", "gaftools/conversion.py", "elif int(query_start) < s < e < int(query_end):", "elif int(query_start) < s < e <= int(query_end):"),
    ("C01", "flip-operands", "gaftools/conversion.py", "if s <= int(query_start) < e:", "if e > int(query_start) >= s:"),
    ("C01", "split-chain", "gaftools/conversion.py", "elif s < int(query_end) <= e:", "elif s < int(query_end) and int(query_end) <= e:"),
    ("C01", "rename-merge", "gaftools/conversion.py", "    if orient1 == \"<\":\n        node = StableNode(node1.contig_id, node2.start, node1.end)\n    else:\n        node = StableNode(node1.contig_id, node1.start, node2.end)\n    return [node, orient1]", "    if orient1 != \"<\":\n        merged = StableNode(node1.contig_id, node1.start, node2.end)\n    else:\n        merged = StableNode(node1.contig_id, node2.start, node1.end)\n    return [merged, orient1]"),
    ("C01", "affine-reassociated", "gaftools/conversion.py", "new_start = out_node[0][0].start + gaf_line.path_length - gaf_line.path_end", "rest = gaf_line.path_length - gaf_line.path_end\n            new_start = rest + out_node[0][0].start"),
    ("C03", "index-flip-operands", "gaftools/cli/index.py", "            if cases != -1:\n                unstable_coord.append(node.id)", "            if not cases == -1:\n                unstable_coord.append(node.id)"),
    ("C04", "try-per-node", "gaftools/cli/view.py", "            if nd in ind_dict:\n                offsets.update(ind[ind_dict[nd]])", "            try:\n                offsets.update(ind[ind_dict[nd]])\n            except KeyError:\n                continue"),
    ("C04", "set-union", "gaftools/cli/view.py", "                offsets.update(ind[ind_dict[nd]])", "                offsets |= set(ind[ind_dict[nd]])"),
    ("C05", "flip-region-test", "gaftools/cli/view.py", "if nd[2] <= q_e and q_s < nd[3]:", "if q_e >= nd[2] and nd[3] > q_s:"),
    ("C05", "extend-idiom", "gaftools/cli/view.py", "        for nd in node:\n            result.append(nd[0])", "        result.extend(nd[0] for nd in node)"),
    ("C06", "enumerate-start-1", "gaftools/cli/order_gfa.py", "            for i, n in enumerate(sorted(bubbles[int(node.split(\" \")[1])])):\n                node_order[n] = (bo, i + 1)", "            for i, n in enumerate(sorted(bubbles[int(node.split(\" \")[1])]), 1):\n                node_order[n] = (bo, i)"),
    ("C08", "flip-comparator-operands", "gaftools/cli/sort.py", "    if al1.BO < al2.BO:\n        return -1\n    if al1.BO > al2.BO:\n        return 1", "    if al2.BO > al1.BO:\n        return -1\n    if al2.BO < al1.BO:\n        return 1"),
    ("C08", "elif-chain", "gaftools/cli/sort.py", "    if al1.start < al2.start:\n        return -1\n    if al1.start > al2.start:\n        return 1", "    if al1.start < al2.start:\n        return -1\n    elif al1.start > al2.start:\n        return 1"),
    ("C09", "fstring-tags", "gaftools/cli/sort.py", 'line += "\\tbo:i:%d\\tsn:Z:%s\\tiv:i:%d\\n" % (alignment.BO, alignment.sn, alignment.inv)', 'line += f"\\tbo:i:{alignment.BO}\\tsn:Z:{alignment.sn}\\tiv:i:{alignment.inv}\\n"'),
    ("C10", "is-not-none-polarity", "gaftools/cli/sort.py", "                if index_dict[alignment.sn][0] is None:\n                    index_dict[alignment.sn][0] = out_off\n                    index_dict[alignment.sn][1] = out_off\n                else:\n                    index_dict[alignment.sn][1] = out_off", "                if index_dict[alignment.sn][0] is None:\n                    index_dict[alignment.sn][0] = out_off\n                index_dict[alignment.sn][1] = out_off"),
    ("C11", "else-instead-of-continue", "gaftools/cli/realign.py", "                    # all processes exited cleanly, the rest of their output is still in the queue\n                    continue\n            if out_string_obj is None:\n                n_sentinels += 1\n            else:\n                p_queue.put(out_string_obj)", "                    # all processes exited cleanly, the rest of their output is still in the queue\n                    continue\n            if out_string_obj is not None:\n                p_queue.put(out_string_obj)\n            else:\n                n_sentinels += 1"),
    ("C11", "leftover-spread-ceil", "gaftools/cli/realign.py", '        processes.append(\n            mp.Process(\n                target=wfa_alignment,\n                args=(\n                    seq_batch,\n                    align_queue,\n                ),\n            )\n        )\n    # leftover batches', '        n_free = min(max(cores - len(processes), 1), len(seq_batch))\n        chunk = (len(seq_batch) + n_free - 1) // n_free\n        for i in range(n_free):\n            processes.append(\n                mp.Process(\n                    target=wfa_alignment,\n                    args=(\n                        seq_batch[i * chunk : (i + 1) * chunk],\n                        align_queue,\n                    ),\n                )\n            )\n    # leftover batches'),
    ("C13", "any-all-helpers", "gaftools/cli/realign.py", "    for p in processes:\n        if p.exitcode != 0:\n            return False\n    return True", "    return all(p.exitcode == 0 for p in processes)"),
    ("C14", "cases-reordered", "gaftools/gfa.py", '            (">", ">"): ("end", 0),\n            ("<", "<"): ("start", 1),', '            ("<", "<"): ("start", 1),\n            (">", ">"): ("end", 0),'),
    ("C16", "fstring-writer", "gaftools/gaf.py", 'line += "\\t%s%s" % (k, self.tags[k])', 'line += f"\\t{k}{self.tags[k]}"'),
    ("C16", "items-loop", "gaftools/gaf.py", '        for k in self.tags.keys():\n            line += "\\t%s%s" % (k, self.tags[k])', '        for k, v in self.tags.items():\n            line += "\\t%s%s" % (k, v)'),
    ("C19", "not-polarity", "gaftools/cli/stat.py", "if not (mapping.is_primary) or (mapping.mapping_quality <= 0):", "if mapping.mapping_quality <= 0 or not mapping.is_primary:"),
    ("C19", "max-flip", "gaftools/cli/stat.py", "if reads[mapping.query_name].highest_map_ratio < map_ratio:", "if map_ratio > reads[mapping.query_name].highest_map_ratio:"),
    ("C20", "fstring-tags", "gaftools/cli/phase.py", 'gaf_out.write("\\t%s%s" % (k, gaf_line.tags[k]))', 'gaf_out.write(f"\\t{k}{gaf_line.tags[k]}")'),
]


def _copy_tree(dst):
    os.makedirs(dst)
    subprocess.run(f"cd /repo && git ls-files -z gaftools docs | xargs -0 cp --parents -t {dst}", shell=True, check=True, capture_output=True)
    # uncommitted edits of tracked files are part of 'the current tree'
    return dst


def _scratch():
    base = "/dev/shm" if os.path.isdir("/dev/shm") and os.access("/dev/shm", os.W_OK) else None
    return tempfile.mkdtemp(prefix="gvself_", dir=base)


def run_variant(repo_root, prop, name, rel, old, new, kind):
    src_path = os.path.join(repo_root, rel)
    try:
        with open(src_path, encoding="utf-8") as fh:
            src = fh.read()
    except OSError:
        return {"prop": prop, "name": name, "kind": kind, "status": "n/a", "why": "file missing"}
    if src.count(old) != 1:
        return {"prop": prop, "name": name, "kind": kind, "status": "n/a", "why": f"anchor text occurs {src.count(old)} times"}
    tmp = _scratch()
    try:
        dst = os.path.join(tmp, "repo")
        shutil.copytree(os.path.join(repo_root, "gaftools"), os.path.join(dst, "gaftools"), ignore=shutil.ignore_patterns("__pycache__"))
        if os.path.isdir(os.path.join(repo_root, "docs")):
            shutil.copytree(os.path.join(repo_root, "docs"), os.path.join(dst, "docs"))
        with open(os.path.join(dst, rel), "w", encoding="utf-8") as fh:
            fh.write(src.replace(old, new))
        c = subprocess.run([PY, "-m", "py_compile", os.path.join(dst, rel)], capture_output=True, text=True)
        if c.returncode != 0:
            return {"prop": prop, "name": name, "kind": kind, "status": "n/a", "why": "variant does not compile"}
        env = dict(os.environ, GV_EVIDENCE_DIR=os.path.join(tmp, "ev"), PYTHONDONTWRITEBYTECODE="1")
        q = subprocess.run([PY, "-m", "gv", "check", prop, "--tier", "quick", "--repo", dst], cwd=VERIF, capture_output=True, text=True, env=env)
        rules = sorted(set(re.findall(r"rule (R[\d.]+)", q.stdout)))
        want = 1 if kind == "break" else 0
        return {"prop": prop, "name": name, "kind": kind, "status": "ok" if q.returncode == want else "MISS", "exit": q.returncode, "rules": rules, "out": q.stdout[-400:] if q.returncode != want else ""}
    finally:
        shutil.rmtree(tmp, ignore_errors=True)


# seeded changes that the checks answer with exit 2 (fail closed), by design: the change replaces an algorithm the rules
# model by a different one, of which nothing positive can be said statically (DESIGN 5.2)
UNDECIDABLE_SEEDS = {
    "C15-v1": "biccs rewritten from the edge-stack algorithm to a node-stack variant with a wrong pop",
    # feature-shaped seeds of round 10 whose new code replaces the construct the rules read (answered exit 2, see DESIGN 5.2)
    "C02-k2": "columns 10 / 11 recomputed from the CIGAR by a new helper (M counted as match)",
    "C12-k1": "common prefix / suffix stripped before the aligner is called, in a new helper",
    "C18-k1": "a second ordering routine for unbranched components next to decompose_and_order",
    # lifecycle seeds of round 11 that remove the construct the rule reads its evidence from (answered exit 2, see DESIGN 5.2)
    "C07-j2": "one reader handle per chromosome file shared by the S pass and the L pass of the concatenation",
    "C10-j2": "the index offset carried in a local across the records instead of tell() before each write",
    "C10-j3": "offsets collected in a list and zipped with a lazily filtered record list after the loop",
    # adversarial seeds of round 13 that take apart the construct the rule reads (answered exit 2)
    "C05-g3": "region bounds taken as min / max of the split text fields instead of int(region[1]), int(region[2])",
    "C08-g2": "the append to the scaffold-orientation list dedented out of the node loop",
    "C09-g3": "tag parsing in add_node through partition / rpartition instead of split(':', 2)",
}


def run_seed(repo_root, seed):
    d = os.path.join(VERIF, "seeded", seed)
    prop = seed.split("-")[0]
    tmp = _scratch()
    try:
        dst = os.path.join(tmp, "repo")
        shutil.copytree(os.path.join(repo_root, "gaftools"), os.path.join(dst, "gaftools"), ignore=shutil.ignore_patterns("__pycache__"))
        if os.path.isdir(os.path.join(repo_root, "docs")):
            shutil.copytree(os.path.join(repo_root, "docs"), os.path.join(dst, "docs"))
        p = subprocess.run(["patch", "-p1", "-s", "-f", "-i", os.path.join(d, "patch.diff")], cwd=dst, capture_output=True, text=True)
        if p.returncode != 0:
            return {"prop": prop, "name": "seeded:" + seed, "kind": "break", "status": "n/a", "why": "patch no longer applies"}
        env = dict(os.environ, GV_EVIDENCE_DIR=os.path.join(tmp, "ev"), PYTHONDONTWRITEBYTECODE="1")
        q = subprocess.run([PY, "-m", "gv", "check", prop, "--tier", "quick", "--repo", dst], cwd=VERIF, capture_output=True, text=True, env=env)
        rules = sorted(set(re.findall(r"rule (R[\d.]+)", q.stdout)))
        want = (1, 2) if seed in UNDECIDABLE_SEEDS else (1,)  # never silent
        return {"prop": prop, "name": "seeded:" + seed, "kind": "break", "status": "ok" if q.returncode in want else "MISS", "exit": q.returncode, "rules": rules, "out": q.stdout[-400:] if q.returncode not in want else ""}
    finally:
        shutil.rmtree(tmp, ignore_errors=True)


def run_benign(repo_root, name, prop):
    """A behaviour-preserving refactoring written by an independent sub-agent: the check must not report a violation
    (exit 0; exit 2 = undecidable is tolerated and recorded)."""
    d = os.path.join(VERIF, "benign", name)
    tmp = _scratch()
    try:
        dst = os.path.join(tmp, "repo")
        shutil.copytree(os.path.join(repo_root, "gaftools"), os.path.join(dst, "gaftools"), ignore=shutil.ignore_patterns("__pycache__"))
        if os.path.isdir(os.path.join(repo_root, "docs")):
            shutil.copytree(os.path.join(repo_root, "docs"), os.path.join(dst, "docs"))
        p = subprocess.run(["patch", "-p1", "-s", "-f", "-i", os.path.join(d, "patch.diff")], cwd=dst, capture_output=True, text=True)
        if p.returncode != 0:
            return {"prop": prop, "name": "benign:" + name, "kind": "twin", "status": "n/a", "why": "patch no longer applies"}
        env = dict(os.environ, GV_EVIDENCE_DIR=os.path.join(tmp, "ev"), PYTHONDONTWRITEBYTECODE="1")
        q = subprocess.run([PY, "-m", "gv", "check", prop, "--tier", "quick", "--repo", dst], cwd=VERIF, capture_output=True, text=True, env=env)
        return {"prop": prop, "name": "benign:" + name, "kind": "twin", "status": "ok" if q.returncode in (0, 2) else "MISS", "exit": q.returncode, "rules": sorted(set(re.findall(r"rule (R[\d.]+)", q.stdout))), "out": q.stdout[-400:] if q.returncode == 1 else ""}
    finally:
        shutil.rmtree(tmp, ignore_errors=True)


# which properties look at which source files (a benign patch is run against the properties that read the files it touches)
from gv.props.common import FILE_PROPS  # noqa: E402


def benign_jobs(repo_root, only):
    bd = os.path.join(VERIF, "benign")
    out = []
    if not os.path.isdir(bd):
        return out
    for name in sorted(os.listdir(bd)):
        pf = os.path.join(bd, name, "patch.diff")
        if not os.path.isfile(pf):
            continue
        files = re.findall(r"^\+\+\+ b/(\S+)", open(pf).read(), flags=re.M)
        props = sorted({p for f in files for p in FILE_PROPS.get(f, [])})
        for p in props:
            if only is None or p == only:
                out.append(("b", (repo_root, name, p)))
    return out


def battery(repo_root, only=None, jobs=16):
    jobs_list = []
    for prop, name, rel, old, new in BREAK:
        if only is None or prop == only:
            jobs_list.append(("v", (repo_root, prop, name, rel, old, new, "break")))
    for prop, name, rel, old, new in TWIN:
        if only is None or prop == only:
            jobs_list.append(("v", (repo_root, prop, name, rel, old, new, "twin")))
    sd = os.path.join(VERIF, "seeded")
    if os.path.isdir(sd):
        for seed in sorted(os.listdir(sd)):
            if os.path.isdir(os.path.join(sd, seed)) and (only is None or seed.startswith(only + "-")):
                jobs_list.append(("s", (repo_root, seed)))
    jobs_list += benign_jobs(repo_root, only)
    with ThreadPoolExecutor(jobs) as ex:
        res = list(ex.map(lambda j: run_variant(*j[1]) if j[0] == "v" else (run_seed(*j[1]) if j[0] == "s" else run_benign(*j[1])), jobs_list))
    return res


def main(args):
    res = battery(args.repo, args.only, args.jobs)
    miss = [r for r in res if r["status"] == "MISS"]
    na = [r for r in res if r["status"] == "n/a"]
    for r in res:
        if r["status"] != "ok":
            print(f"{r['status']:5s} {r['prop']} {r['kind']:5s} {r['name']}: {r.get('why', '')} {r.get('out', '')[-300:]}")
    print(f"selftest: {len(res)} variants, {len(res) - len(miss) - len(na)} as expected, {len(miss)} missed, {len(na)} not applicable")
    return 2 if miss else 0
