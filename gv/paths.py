"""E2 — structured control-flow paths.

The repository uses only structured control flow (if/elif/else, for/while/else, break/continue,
try/except/else, with, return, raise, assert, yield, sys.exit).  For such code the set of
control-flow paths through a statement list can be enumerated directly from the syntax tree.

A path is a tuple of events plus a terminator:

  Ev('stmt', node)             a simple statement was executed
  Ev('test', expr, pol)        a branch condition was evaluated with outcome pol
  Ev('loop', node)             a nested loop, summarised (not expanded)
  Ev('iter', node, pol)        a `for` header: pol=True one more item, pol=False exhausted
  Ev('exc', stmt, handler)     statement stmt raised inside a try and control went to handler
  Ev('with', item)             entering a with item

Terminators: 'fall' (end of the list reached), 'continue', 'break', 'return', 'raise', 'exit'
(sys.exit / os._exit), and for generators 'yield' is an ordinary statement.

Infeasible paths are pruned with a syntactic rule only: a path on which the *same* condition
(normalised text, negations and !=/== polarity folded) is evaluated twice with different
outcomes, with no intervening write to any name the condition mentions, is dropped.  That is
sound for pruning (never removes a feasible path) because an unchanged pure condition cannot
change its value; conditions containing calls other than a small list of pure builtins are
never used for pruning.
"""

from __future__ import annotations

import ast
from dataclasses import dataclass

from .core import AnalysisError, norm

MAX_PATHS = 40000

PURE_CALLS = {"len", "int", "str", "isinstance", "float", "abs", "min", "max", "set", "list", "tuple", "sorted"}
EXIT_CALLS = {"sys.exit", "exit", "quit", "os._exit"}


@dataclass(frozen=True)
class Ev:
    kind: str
    node: object
    pol: object = None
    extra: object = None

    def __repr__(self):
        if self.kind == "test":
            return f"[{'T' if self.pol else 'F'}:{norm(self.node)[:60]}]"
        if self.kind == "iter":
            return f"[iter {'next' if self.pol else 'done'}:{norm(self.node.target)}]"
        if self.kind == "exc":
            return f"[exc at {norm(self.node)[:40]} -> except {norm(self.extra.type) if self.extra.type else ''}]"
        if self.kind == "loop":
            return f"[loop@{self.node.lineno}]"
        return norm(self.node)[:70]


class Path:
    __slots__ = ("events", "term", "term_node")

    def __init__(self, events, term, term_node=None):
        self.events = events
        self.term = term
        self.term_node = term_node

    def stmts(self):
        return [e.node for e in self.events if e.kind == "stmt"]

    def tests(self):
        return [(e.node, e.pol) for e in self.events if e.kind == "test"]

    def has(self, pred):
        return any(pred(e) for e in self.events)

    def index(self, pred, start=0):
        for i in range(start, len(self.events)):
            if pred(self.events[i]):
                return i
        return -1

    def show(self, limit=14):
        ev = [repr(e) for e in self.events]
        if len(ev) > limit:
            ev = ev[: limit // 2] + ["..."] + ev[-limit // 2 :]
        return " ; ".join(ev) + f" => {self.term}"


# ---------------------------------------------------------------------------------------------
# condition normalisation / feasibility
# ---------------------------------------------------------------------------------------------

_NEG = {ast.NotEq: ast.Eq, ast.IsNot: ast.Is, ast.NotIn: ast.In}


def canon_test(expr, pol=True):
    """(text, polarity) with `not`, !=, is not, not in folded into the polarity."""
    while isinstance(expr, ast.UnaryOp) and isinstance(expr.op, ast.Not):
        expr = expr.operand
        pol = not pol
    if isinstance(expr, ast.Compare) and len(expr.ops) == 1 and type(expr.ops[0]) in _NEG:
        e2 = ast.Compare(left=expr.left, ops=[_NEG[type(expr.ops[0])]()], comparators=expr.comparators)
        return norm(e2), (not pol)
    return norm(expr), pol


def is_pure(expr):
    for n in ast.walk(expr):
        if isinstance(n, ast.Call):
            f = n.func
            if isinstance(f, ast.Name) and f.id in PURE_CALLS:
                continue
            if isinstance(f, ast.Attribute) and f.attr in {"count", "keys", "get", "startswith", "endswith", "isdigit"}:
                continue
            return False
        if isinstance(n, (ast.Yield, ast.YieldFrom, ast.Await, ast.NamedExpr)):
            return False
    return True


def written_roots(node):
    """Names (and dotted attribute texts) a statement may write, conservatively."""
    out = set()

    def target(t):
        if isinstance(t, ast.Name):
            out.add(t.id)
        elif isinstance(t, (ast.Tuple, ast.List)):
            for e in t.elts:
                target(e)
        elif isinstance(t, ast.Starred):
            target(t.value)
        elif isinstance(t, (ast.Attribute, ast.Subscript)):
            out.add(norm(t))
            b = t
            while isinstance(b, (ast.Attribute, ast.Subscript)):
                b = b.value
                out.add(norm(b))

    if isinstance(node, ast.Assign):
        for t in node.targets:
            target(t)
    elif isinstance(node, (ast.AugAssign, ast.AnnAssign)):
        target(node.target)
    elif isinstance(node, (ast.For, ast.comprehension)):
        target(node.target)
    elif isinstance(node, ast.Delete):
        for t in node.targets:
            target(t)
    elif isinstance(node, (ast.With,)):
        for it in node.items:
            if it.optional_vars is not None:
                target(it.optional_vars)
    elif isinstance(node, ast.withitem):
        if node.optional_vars is not None:
            target(node.optional_vars)
    # method calls may mutate their receiver
    if isinstance(node, ast.AST):
        for n in ast.walk(node):
            if isinstance(n, ast.Call) and isinstance(n.func, ast.Attribute):
                b = n.func.value
                out.add(norm(b))
                while isinstance(b, (ast.Attribute, ast.Subscript)):
                    b = b.value
                    out.add(norm(b))
            if isinstance(n, ast.NamedExpr):
                target(n.target)
    return out


def mentions(expr_text_names, roots):
    return bool(expr_text_names & roots)


def _mention_set(expr):
    s = set()
    for n in ast.walk(expr):
        if isinstance(n, ast.Name):
            s.add(n.id)
        elif isinstance(n, (ast.Attribute, ast.Subscript)):
            s.add(norm(n))
    return s


_UNK = object()


def _tv(expr, consts):
    """Three-valued evaluation of a test under names bound to constants on this path: True / False / _UNK."""
    if isinstance(expr, ast.Constant):
        return expr.value
    if isinstance(expr, ast.Name):
        return consts.get(expr.id, _UNK)
    if isinstance(expr, ast.UnaryOp) and isinstance(expr.op, ast.Not):
        v = _tv(expr.operand, consts)
        return _UNK if v is _UNK else (not v)
    if isinstance(expr, ast.UnaryOp) and isinstance(expr.op, ast.USub):
        v = _tv(expr.operand, consts)
        return _UNK if v is _UNK or not isinstance(v, (int, float)) else -v
    if isinstance(expr, ast.BoolOp):
        vals = [_tv(v, consts) for v in expr.values]
        if isinstance(expr.op, ast.And):
            if any(v is not _UNK and not v for v in vals):
                return False
            return _UNK if any(v is _UNK for v in vals) else True
        if any(v is not _UNK and v for v in vals):
            return True
        return _UNK if any(v is _UNK for v in vals) else False
    if isinstance(expr, ast.Compare) and len(expr.ops) == 1:
        l, r = _tv(expr.left, consts), _tv(expr.comparators[0], consts)
        if l is _UNK or r is _UNK:
            return _UNK
        op = expr.ops[0]
        try:
            if isinstance(op, ast.Eq):
                return l == r
            if isinstance(op, ast.NotEq):
                return l != r
            if isinstance(op, ast.Is):
                return l is r or (l == r and (l is None or isinstance(l, bool)))
            if isinstance(op, ast.IsNot):
                return not (l is r or (l == r and (l is None or isinstance(l, bool))))
            if isinstance(op, ast.Lt):
                return l < r
            if isinstance(op, ast.LtE):
                return l <= r
            if isinstance(op, ast.Gt):
                return l > r
            if isinstance(op, ast.GtE):
                return l >= r
        except TypeError:
            return _UNK
    return _UNK


def _const_of(node):
    if isinstance(node, ast.Constant) and (node.value is None or isinstance(node.value, (bool, int, str))):
        return node.value
    if isinstance(node, ast.UnaryOp) and isinstance(node.op, ast.USub) and isinstance(node.operand, ast.Constant) and isinstance(node.operand.value, int):
        return -node.operand.value
    return _UNK


def feasible(events):
    known = {}  # text -> (pol, mention-set)
    consts = {}  # local name -> constant value bound on this path
    for e in events:
        if e.kind == "test":
            v = _tv(e.node, consts)
            if v is not _UNK and bool(v) != bool(e.pol):
                return False
        if e.kind in ("stmt", "iter", "with", "loop", "exc"):
            node = e.node
            if e.kind == "stmt" and isinstance(node, ast.Assign) and len(node.targets) == 1 and isinstance(node.targets[0], ast.Name):
                c = _const_of(node.value)
                if c is _UNK:
                    consts.pop(node.targets[0].id, None)
                else:
                    consts[node.targets[0].id] = c
            else:
                if e.kind == "loop":
                    roots = set()
                    for st in ast.walk(node):
                        if isinstance(st, (ast.stmt, ast.comprehension, ast.withitem)):
                            roots |= written_roots(st)
                else:
                    roots = written_roots(node)
                for r in roots:
                    consts.pop(r, None)
        if e.kind == "test":
            if not is_pure(e.node):
                continue
            t, p = canon_test(e.node, e.pol)
            if t in known:
                if known[t][0] != p:
                    return False
            else:
                known[t] = (p, _mention_set(e.node))
        elif e.kind in ("stmt", "iter", "with", "loop"):
            node = e.node
            if e.kind == "loop":
                roots = set()
                for st in ast.walk(node):
                    if isinstance(st, (ast.stmt, ast.comprehension, ast.withitem)):
                        roots |= written_roots(st)
            else:
                roots = written_roots(node)
            if roots:
                for t in [t for t, (_, ms) in known.items() if ms & roots]:
                    del known[t]
        elif e.kind == "exc":
            roots = written_roots(e.node)  # partial execution of the raising statement: conservatively forget
            for t in [t for t, (_, ms) in known.items() if ms & roots]:
                del known[t]
    return True


# ---------------------------------------------------------------------------------------------
# enumeration
# ---------------------------------------------------------------------------------------------


def is_exit_stmt(st):
    return isinstance(st, ast.Expr) and isinstance(st.value, ast.Call) and norm(st.value.func) in EXIT_CALLS


def is_assert_false(st):
    return isinstance(st, ast.Assert) and isinstance(st.test, ast.Constant) and not st.test.value


def const_truth(expr):
    if isinstance(expr, ast.Constant):
        return bool(expr.value)
    return None


def default_may_raise(stmt, handler):
    """Can `stmt` (inside a try body) transfer control to `handler`?  Syntactic over-approximation."""
    ht = norm(handler.type) if handler.type is not None else ""
    has_call = any(isinstance(n, ast.Call) for n in ast.walk(stmt))
    has_sub = any(isinstance(n, ast.Subscript) for n in ast.walk(stmt))
    if isinstance(stmt, ast.Assert):
        return "Assertion" in ht or ht in ("", "Exception", "BaseException")
    if isinstance(stmt, ast.Raise):
        return True
    if "KeyError" in ht or "IndexError" in ht:
        return has_sub or has_call
    if "AssertionError" in ht:
        return False
    return has_call


class Enumerator:
    def __init__(self, expand_loop=None, may_raise=None, max_paths=MAX_PATHS, rule="E2", where="?"):
        self.expand_loop = expand_loop or (lambda node: False)
        self.may_raise = may_raise or default_may_raise
        self.max_paths = max_paths
        self.rule = rule
        self.where = where
        self.n = 0

    def _tick(self, k=1):
        self.n += k
        if self.n > self.max_paths:
            raise AnalysisError(self.rule, self.where, f"more than {self.max_paths} control-flow paths; region too large for path enumeration")

    def block(self, stmts):
        """-> list of (events tuple, term, term_node)"""
        results = [((), "fall", None)]
        for st in stmts:
            nxt = []
            cont = [r for r in results if r[1] == "fall"]
            done = [r for r in results if r[1] != "fall"]
            if not cont:
                results = done
                break
            sub = self.stmt(st)
            for ev0, _, _ in cont:
                for ev1, term, tn in sub:
                    ev = ev0 + ev1
                    if feasible(ev):
                        nxt.append((ev, term, tn))
                        self._tick()
            results = done + nxt
        return results

    def stmt(self, st):
        if isinstance(st, ast.If):
            out = []
            ct = const_truth(st.test)
            if ct is not False:
                for ev, term, tn in self.block(st.body):
                    out.append(((Ev("test", st.test, True),) + ev, term, tn))
            if ct is not True:
                for ev, term, tn in self.block(st.orelse):
                    out.append(((Ev("test", st.test, False),) + ev, term, tn))
            return out
        if isinstance(st, (ast.For, ast.AsyncFor)):
            if not self.expand_loop(st):
                return [((Ev("loop", st),), "fall", None)]
            out = []
            # zero iterations
            for ev, term, tn in self.block(st.orelse):
                out.append(((Ev("iter", st, False),) + ev, term, tn))
            # one iteration, then the loop is left (by exhaustion or break)
            for ev, term, tn in self.block(st.body):
                head = (Ev("iter", st, True),) + ev
                if term in ("fall", "continue"):
                    for ev2, term2, tn2 in self.block(st.orelse):
                        out.append((head + (Ev("iter", st, False),) + ev2, term2, tn2))
                elif term == "break":
                    out.append((head, "fall", None))
                else:
                    out.append((head, term, tn))
            return out
        if isinstance(st, ast.While):
            if not self.expand_loop(st):
                return [((Ev("loop", st),), "fall", None)]
            out = []
            ct = const_truth(st.test)
            if ct is not True:
                for ev, term, tn in self.block(st.orelse):
                    out.append(((Ev("test", st.test, False),) + ev, term, tn))
            for ev, term, tn in self.block(st.body):
                head = (Ev("test", st.test, True),) + ev
                if term in ("fall", "continue"):
                    if ct is True:
                        # cannot leave except by break/return: represent the back edge as termination 'loopback'
                        out.append((head, "loopback", None))
                    else:
                        for ev2, term2, tn2 in self.block(st.orelse):
                            out.append((head + (Ev("test", st.test, False),) + ev2, term2, tn2))
                elif term == "break":
                    out.append((head, "fall", None))
                else:
                    out.append((head, term, tn))
            return out
        if isinstance(st, ast.Try):
            return self.try_(st)
        if isinstance(st, (ast.With, ast.AsyncWith)):
            head = tuple(Ev("with", it) for it in st.items)
            return [(head + ev, term, tn) for ev, term, tn in self.block(st.body)]
        if isinstance(st, ast.Return):
            return [((Ev("stmt", st),), "return", st)]
        if isinstance(st, ast.Raise):
            return [((Ev("stmt", st),), "raise", st)]
        if isinstance(st, ast.Break):
            return [((), "break", st)]
        if isinstance(st, ast.Continue):
            return [((), "continue", st)]
        if is_exit_stmt(st):
            return [((Ev("stmt", st),), "exit", st)]
        if is_assert_false(st):
            return [((Ev("stmt", st),), "raise", st)]
        if isinstance(st, (ast.FunctionDef, ast.AsyncFunctionDef, ast.ClassDef)):
            return [((), "fall", None)]
        if isinstance(st, ast.Match):
            raise AnalysisError(self.rule, self.where, "match statement not supported by the path enumerator")
        # conditional expression at the top of an assignment / return: x = a if c else b  ==  if c: x = a else: x = b
        val = getattr(st, "value", None)
        if isinstance(st, (ast.Assign, ast.AugAssign, ast.Return)) and isinstance(val, ast.IfExp):
            out = []
            for arm, pol in ((val.body, True), (val.orelse, False)):
                st2 = _with_value(st, arm)
                for ev, term, tn in self.stmt(st2):
                    out.append(((Ev("test", val.test, pol),) + ev, term, tn))
            return out
        return [((Ev("stmt", st),), "fall", None)]

    def try_(self, st):
        out = []
        body = self.block(st.body)
        # normal completion -> else -> finally
        for ev, term, tn in body:
            if term == "fall":
                for ev2, term2, tn2 in self.block(st.orelse):
                    out.append((ev + ev2, term2, tn2))
            else:
                out.append((ev, term, tn))
        # exceptional: a statement of the body raises, control goes to a handler
        seen = set()
        for ev, term, tn in body:
            for i, e in enumerate(ev):
                if e.kind != "stmt":
                    continue
                for h in st.handlers:
                    if not self.may_raise(e.node, h):
                        continue
                    key = (tuple(id(x.node) if x.kind != "test" else (id(x.node), x.pol) for x in ev[:i]), id(e.node), id(h))
                    if key in seen:
                        continue
                    seen.add(key)
                    for ev2, term2, tn2 in self.block(h.body):
                        full = ev[:i] + (Ev("exc", e.node, None, h),) + ev2
                        if feasible(full):
                            out.append((full, term2, tn2))
                            self._tick()
        if st.finalbody:
            fin = self.block(st.finalbody)
            out2 = []
            for ev, term, tn in out:
                for ev2, term2, tn2 in fin:
                    out2.append((ev + ev2, term if term2 == "fall" else term2, tn if term2 == "fall" else tn2))
            out = out2
        return out


def _with_value(st, value):
    """Copy of an Assign/AugAssign/Return statement with another value expression (position info kept)."""
    if isinstance(st, ast.Assign):
        n = ast.Assign(targets=st.targets, value=value, type_comment=None)
    elif isinstance(st, ast.AugAssign):
        n = ast.AugAssign(target=st.target, op=st.op, value=value)
    else:
        n = ast.Return(value=value)
    return ast.copy_location(n, st)


def enum_paths(stmts, expand_loop=None, may_raise=None, rule="E2", where="?", max_paths=MAX_PATHS):
    en = Enumerator(expand_loop, may_raise, max_paths, rule, where)
    return [Path(ev, term, tn) for ev, term, tn in en.block(stmts)]


def func_paths(func, **kw):
    return enum_paths(func.node.body, where=func.where(), **kw)


# ---------------------------------------------------------------------------------------------
# simple structural helpers used by many rules
# ---------------------------------------------------------------------------------------------


def enclosing_chain(root, target):
    """List of ancestors of `target` below `root` (outermost first), or None if not inside."""
    chain = []

    def rec(n):
        if n is target:
            return True
        for c in ast.iter_child_nodes(n):
            if rec(c):
                chain.append(n)
                return True
        return False

    if rec(root):
        chain.reverse()
        return chain
    return None


def find_loops(body):
    for st in body:
        for n in ast.walk(st):
            if isinstance(n, (ast.For, ast.While)):
                yield n


def stmt_of(func_node, target):
    """The innermost statement of func that contains the node `target`."""
    best = None
    for st in ast.walk(func_node):
        if isinstance(st, ast.stmt):
            for n in ast.walk(st):
                if n is target:
                    if best is None or _contains(best, st):
                        best = st
                    break
    return best


def _contains(outer, inner):
    return any(n is inner for n in ast.walk(outer))
