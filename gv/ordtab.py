"""E4 — finite decision tables for comparison-only code.

Code that touches its integer inputs only through <, <=, ==, !=, >=, >, chained comparisons,
and/or/not, if/elif/else and `return <const>` depends only on the *order type* of the atoms it
compares (their weak ordering, including their position relative to the integer literals that
occur in the code).  Every order type of k atoms and c literals is realised by an assignment of
the atoms to values from a small integer domain, so evaluating the syntax tree on every such
assignment yields the complete decision table for all integer inputs.

The evaluator below is a total structural recursion over the supported fragment; anything outside
the fragment raises Unsupported, which the caller turns into an AnalysisError (exit 2).
"""

from __future__ import annotations

import ast
import itertools

from .core import norm


class Unsupported(Exception):
    pass


class Fall:
    """Falling off the end of the evaluated statement list (function returns None)."""

    def __repr__(self):
        return "FALL"


FALL = Fall()


def weak_orderings(names, consts=(), force_scale=None):
    """All assignments realising every weak ordering of `names` relative to each other and to
    the integer constants.  Values are drawn from a domain that contains every constant, and
    enough room below, between and above them."""
    k = len(names)
    consts = sorted(set(consts))
    # domain: for k atoms we need up to k distinct values in each gap
    if not consts:
        scale = force_scale or (k + 1)
        seen = set()
        for combo in itertools.product(range(k), repeat=k):
            sig = tuple(_sig(combo, []))
            if sig in seen:
                continue
            seen.add(sig)
            yield dict(zip(names, combo)), scale
        return
    pts = consts
    # use a scaled grid so that k distinct values fit strictly between consecutive constants
    scale = force_scale or (k + 1)
    # that grid is far too large to enumerate naively; reduce: only order types matter, so it is
    # enough to pick for each atom a "slot": (gap index or constant index, rank within gap)
    slots = []
    # gaps: below first const, between consts, above last; each gap offers ranks 0..k-1
    gaps = len(pts) + 1
    for g in range(gaps):
        for r in range(k):
            if g == 0:
                v = pts[0] * scale - (k - r)
            elif g == gaps - 1:
                v = pts[-1] * scale + (r + 1)
            else:
                v = pts[g - 1] * scale + (r + 1)
                if v >= pts[g] * scale:
                    continue
            slots.append(v)
    for c in pts:
        slots.append(c * scale)
    slots = sorted(set(slots))
    seen = set()
    for combo in itertools.product(slots, repeat=k):
        # canonical order type signature
        sig = tuple(_sig(combo, [c * scale for c in pts]))
        if sig in seen:
            continue
        seen.add(sig)
        yield dict(zip(names, combo)), scale


def _sig(vals, cvals):
    allv = sorted(set(vals) | set(cvals))
    rank = {v: i for i, v in enumerate(allv)}
    return [rank[v] for v in vals] + [rank[c] for c in cvals]


class Evaluator:
    """Evaluate expressions/statements of the comparison fragment under an atom assignment.

    atom_of(expr) -> atom name or None decides which sub-expressions are opaque integers.
    Integer literals are scaled by `scale` (see weak_orderings)."""

    def __init__(self, env, atom_of, scale=1, bool_atoms=None):
        self.env = env
        self.atom_of = atom_of
        self.scale = scale
        self.bool_atoms = bool_atoms or {}

    def expr(self, e):
        a = self.atom_of(e)
        if a is not None:
            if a in self.env:
                return self.env[a]
            if a in self.bool_atoms:
                return self.bool_atoms[a]
            raise Unsupported(f"atom {a} has no value")
        if isinstance(e, ast.Constant):
            if isinstance(e.value, bool) or e.value is None:
                return e.value
            if isinstance(e.value, int):
                return e.value * self.scale
            return e.value  # strings compare by equality only
        if isinstance(e, ast.UnaryOp):
            if isinstance(e.op, ast.Not):
                return not self.truth(e.operand)
            if isinstance(e.op, ast.USub) and isinstance(e.operand, ast.Constant) and isinstance(e.operand.value, int):
                return -e.operand.value * self.scale
            raise Unsupported(norm(e))
        if isinstance(e, ast.BoolOp):
            if isinstance(e.op, ast.And):
                v = True
                for x in e.values:
                    v = self.expr(x)
                    if not v:
                        return v
                return v
            v = False
            for x in e.values:
                v = self.expr(x)
                if v:
                    return v
            return v
        if isinstance(e, ast.Compare):
            left = self.expr(e.left)
            for op, right in zip(e.ops, e.comparators):
                r = self.expr(right)
                if not self.cmp(op, left, r):
                    return False
                left = r
            return True
        if isinstance(e, ast.IfExp):
            return self.expr(e.body) if self.truth(e.test) else self.expr(e.orelse)
        if isinstance(e, ast.Call) and isinstance(e.func, ast.Name) and e.func.id in ("min", "max") and len(e.args) >= 2 and not e.keywords:
            vals = [self.expr(a) for a in e.args]  # min / max of comparable values depend on their order type only
            return min(vals) if e.func.id == "min" else max(vals)
        if isinstance(e, ast.Tuple):
            return tuple(self.expr(x) for x in e.elts)
        raise Unsupported(f"expression outside the comparison fragment: {norm(e)}")

    def truth(self, e):
        return bool(self.expr(e))

    @staticmethod
    def cmp(op, a, b):
        if isinstance(op, ast.Lt):
            return a < b
        if isinstance(op, ast.LtE):
            return a <= b
        if isinstance(op, ast.Gt):
            return a > b
        if isinstance(op, ast.GtE):
            return a >= b
        if isinstance(op, ast.Eq):
            return a == b
        if isinstance(op, ast.NotEq):
            return a != b
        if isinstance(op, ast.Is):
            return a is b or a == b
        if isinstance(op, ast.IsNot):
            return not (a is b or a == b)
        if isinstance(op, ast.In):
            return a in b
        if isinstance(op, ast.NotIn):
            return a not in b
        raise Unsupported(type(op).__name__)

    # statements: if / return / pass / expression statements without effect on the fragment
    def block(self, stmts, on_stmt=None):
        for st in stmts:
            r = self.stmt(st, on_stmt)
            if r is not None:
                return r
        return None

    def stmt(self, st, on_stmt=None):
        if isinstance(st, ast.If):
            if self.truth(st.test):
                return self.block(st.body, on_stmt)
            return self.block(st.orelse, on_stmt)
        if isinstance(st, ast.Return):
            if st.value is None:
                return ("return", None)
            v = self.expr(st.value)
            if isinstance(v, int) and not isinstance(v, bool) and self.scale != 1 and isinstance(st.value, (ast.Constant, ast.UnaryOp)):
                v = v // self.scale
            return ("return", v)
        if isinstance(st, ast.Pass):
            return None
        if isinstance(st, ast.Expr) and isinstance(st.value, ast.Constant):
            return None  # docstring
        if isinstance(st, ast.Assign) and len(st.targets) == 1 and isinstance(st.targets[0], ast.Name) and not any(isinstance(x, (ast.Call, ast.NamedExpr, ast.Await, ast.Yield)) for x in ast.walk(st.value)):
            return None  # a pure temporary: its readers were given its definition (a reader left unresolved is Unsupported)
        if on_stmt is not None:
            return on_stmt(self, st)
        raise Unsupported(f"statement outside the comparison fragment: {norm(st)[:80]}")


def comparison_components(root, atom_of):
    """Partition the atoms of `root` into groups that are (transitively) compared with each other,
    each with the integer literals it is compared with.  -> list of (sorted names, sorted consts)"""
    parent = {}
    consts = {}

    def find(a):
        parent.setdefault(a, a)
        while parent[a] != a:
            parent[a] = parent[parent[a]]
            a = parent[a]
        return a

    def union(a, b):
        ra, rb = find(a), find(b)
        if ra != rb:
            parent[ra] = rb

    def operand_atoms(e):
        a = atom_of(e)
        if a is not None:
            return [a], []
        c = _const_int(e)
        if c is not None:
            return [], [c]
        if isinstance(e, ast.Tuple):
            ats, cs = [], []
            for x in e.elts:
                a2, c2 = operand_atoms(x)
                ats += a2
                cs += c2
            return ats, cs
        return None, None

    for n in ast.walk(root):
        a = atom_of(n) if isinstance(n, ast.expr) else None
        if a is not None:
            find(a)
        if isinstance(n, ast.Compare):
            ops = [n.left] + list(n.comparators)
            if any(isinstance(o, ast.Tuple) for o in ops):
                # tuple comparison: element-wise groups
                tl = [o.elts if isinstance(o, ast.Tuple) else None for o in ops]
                if all(t is not None for t in tl) and len({len(t) for t in tl}) == 1:
                    for col in zip(*tl):
                        _link(col, operand_atoms, union, find, consts)
                    continue
            _link(ops, operand_atoms, union, find, consts)
    groups = {}
    for a in list(parent):
        groups.setdefault(find(a), []).append(a)
    out = []
    for r, names in groups.items():
        cs = set()
        for a in names:
            cs |= consts.get(a, set())
        out.append((sorted(names), sorted(cs)))
    return sorted(out)


def _const_int(e):
    if isinstance(e, ast.Constant) and isinstance(e.value, int) and not isinstance(e.value, bool):
        return e.value
    if isinstance(e, ast.UnaryOp) and isinstance(e.op, ast.USub) and isinstance(e.operand, ast.Constant) and isinstance(e.operand.value, int):
        return -e.operand.value
    return None


def _link(operands, operand_atoms, union, find, consts):
    ats_all, cs_all = [], []
    for o in operands:
        ats, cs = operand_atoms(o)
        if ats is None:
            continue
        ats_all += ats
        cs_all += cs
    for a in ats_all:
        find(a)
        consts.setdefault(a, set()).update(cs_all)
    for a, b in zip(ats_all, ats_all[1:]):
        union(a, b)


def component_envs(components, max_envs=400000):
    """Product of the weak orderings of each component.  A common scale is used for constants."""
    per = []
    scale = 1
    for names, consts in components:
        scale = max(scale, len(names) + 1)
    for names, consts in components:
        rows = []
        for env, sc in weak_orderings(names, consts, force_scale=scale):
            rows.append(env)
        per.append(rows)
    total = 1
    for rows in per:
        total *= len(rows)
    if total > max_envs:
        raise Unsupported(f"decision table too large ({total} order types)")
    for combo in itertools.product(*per):
        env = {}
        for d in combo:
            env.update(d)
        yield env, scale


def function_table(fnode, atom_of, names, consts=()):
    """Decision table of a comparison-only function: list of (env, result)."""
    rows = []
    for env, scale in weak_orderings(names, consts):
        ev = Evaluator(env, atom_of, scale)
        r = ev.block(fnode.body)
        rows.append((env, FALL if r is None else r[1]))
    return rows


def int_consts(node):
    out = set()
    for n in ast.walk(node):
        if isinstance(n, ast.Constant) and isinstance(n.value, int) and not isinstance(n.value, bool):
            out.add(n.value)
        if isinstance(n, ast.UnaryOp) and isinstance(n.op, ast.USub) and isinstance(n.operand, ast.Constant) and isinstance(n.operand.value, int):
            out.add(-n.operand.value)
    return out


def consistent_paths(paths, env, atom_of, scale=1, bool_atoms=None):
    """Paths all of whose *evaluable* tests (those inside the comparison fragment over known atoms) have the
    outcome they would have under env.  Tests outside the fragment do not constrain."""
    out = []
    for p in paths:
        ok = True
        for e in p.events:
            if e.kind != "test":
                continue
            try:
                v = Evaluator(env, atom_of, scale, bool_atoms).truth(e.node)
            except Unsupported:
                continue
            except TypeError:
                continue
            if v != e.pol:
                ok = False
                break
        if ok:
            out.append(p)
    return out
