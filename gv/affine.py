"""Affine abstract domain: integer expressions as  c0 + sum(ci * symbol_i)  over opaque symbols.

Used to decide offset arithmetic (C01/C02) without running anything: along one control-flow path
the assignments to integer locals are folded into affine forms over the *inputs* of the region
(attributes of the parsed record, tag values, loop-carried values at region entry).  Two code
shapes that compute the same affine function get the same normal form, so the rule is insensitive
to renaming, re-association, introduction of temporaries and reordering of commutative terms.
Anything non-affine becomes a fresh opaque symbol named by its normalised source text.
"""

from __future__ import annotations

import ast

from .core import norm


class Aff:
    __slots__ = ("c", "t")

    def __init__(self, c=0, t=None):
        self.c = c
        self.t = {k: v for k, v in (t or {}).items() if v != 0}

    @staticmethod
    def sym(name):
        return Aff(0, {name: 1})

    def __add__(self, o):
        t = dict(self.t)
        for k, v in o.t.items():
            t[k] = t.get(k, 0) + v
        return Aff(self.c + o.c, t)

    def __neg__(self):
        return Aff(-self.c, {k: -v for k, v in self.t.items()})

    def __sub__(self, o):
        return self + (-o)

    def scale(self, k):
        return Aff(self.c * k, {s: v * k for s, v in self.t.items()})

    def is_const(self):
        return not self.t

    def key(self):
        return (self.c, tuple(sorted(self.t.items())))

    def __eq__(self, o):
        return isinstance(o, Aff) and self.key() == o.key()

    def __hash__(self):
        return hash(self.key())

    def __repr__(self):
        parts = []
        for k, v in sorted(self.t.items()):
            if v == 1:
                parts.append(f"+ {k}")
            elif v == -1:
                parts.append(f"- {k}")
            else:
                parts.append(f"{'+' if v > 0 else '-'} {abs(v)}*{k}")
        if self.c or not parts:
            parts.append(f"{'+' if self.c >= 0 else '-'} {abs(self.c)}")
        s = " ".join(parts)
        return s[2:] if s.startswith("+ ") else s


def make(spec):
    """Aff from a compact spec: dict sym->coef with optional '' -> constant."""
    spec = dict(spec)
    c = spec.pop("", 0)
    return Aff(c, spec)


class AffEval:
    def __init__(self, env=None, rename=None):
        self.env = dict(env or {})
        self.rename = rename or (lambda text: text)

    def of(self, e):
        if isinstance(e, ast.Constant) and isinstance(e.value, int) and not isinstance(e.value, bool):
            return Aff(e.value)
        if isinstance(e, ast.UnaryOp) and isinstance(e.op, ast.USub):
            return -self.of(e.operand)
        if isinstance(e, ast.Name):
            if e.id in self.env:
                return self.env[e.id]
            return Aff.sym(self.rename(e.id))
        if isinstance(e, ast.Call) and isinstance(e.func, ast.Name) and e.func.id == "int" and len(e.args) == 1:
            return self.of(e.args[0])
        if isinstance(e, ast.BinOp):
            if isinstance(e.op, ast.Add):
                return self.of(e.left) + self.of(e.right)
            if isinstance(e.op, ast.Sub):
                return self.of(e.left) - self.of(e.right)
            if isinstance(e.op, ast.Mult):
                l, r = self.of(e.left), self.of(e.right)
                if l.is_const():
                    return r.scale(l.c)
                if r.is_const():
                    return l.scale(r.c)
        return Aff.sym(self.rename(norm(e)))

    def assign(self, st):
        """Feed a simple statement; returns the set of names written."""
        if isinstance(st, ast.Assign) and len(st.targets) == 1:
            t = st.targets[0]
            if isinstance(t, ast.Name):
                self.env[t.id] = self.of(st.value)
                return {t.id}
            if isinstance(t, (ast.Tuple, ast.List)):
                names = set()
                vals = st.value.elts if isinstance(st.value, (ast.Tuple, ast.List)) and len(st.value.elts) == len(t.elts) else None
                for i, x in enumerate(t.elts):
                    if isinstance(x, ast.Name):
                        self.env[x.id] = self.of(vals[i]) if vals else Aff.sym(self.rename(f"{norm(st.value)}[{i}]"))
                        names.add(x.id)
                return names
        if isinstance(st, ast.AugAssign) and isinstance(st.target, ast.Name):
            cur = self.env.get(st.target.id, Aff.sym(self.rename(st.target.id)))
            v = self.of(st.value)
            if isinstance(st.op, ast.Add):
                self.env[st.target.id] = cur + v
            elif isinstance(st.op, ast.Sub):
                self.env[st.target.id] = cur - v
            else:
                self.env[st.target.id] = Aff.sym(self.rename(norm(st)))
            return {st.target.id}
        return set()

    def havoc(self, names, tag):
        for n in names:
            self.env[n] = Aff.sym(self.rename(f"{n}@{tag}"))
