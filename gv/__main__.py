"""Command line:  python -m gv check <PROPERTY> [--tier quick|thorough] [--repo /repo]
                 python -m gv all [--tier quick] [--repo /repo]
                 python -m gv selftest [--jobs N]

Exit codes: 0 property held on everything analysed (KNOWN-FINDING lines possible),
            1 at least one VIOLATION line, 2 ANALYSIS-ERROR (the analysis could not decide).
"""

from __future__ import annotations

import argparse
import importlib
import os
import sys
import time
import traceback

from .core import AnalysisError, Ctx, Repo, finish

PROPS = [f"C{i:02d}" for i in range(1, 21)]


def run_check(prop, tier, repo_root, quiet=False):
    t0 = time.time()
    seed = int(os.environ.get("VERIF_SEED", "0") or 0)
    ctx = None
    mod = None
    try:
        repo = Repo(repo_root)
        mod = importlib.import_module(f"gv.props.{prop.lower()}")
        ctx = Ctx(prop, repo, tier)
        from gv.props import shared as _shared

        _shared.pre_lints(ctx)
        mod.check(ctx)
        for e in ctx.soft_deferred:
            print(f"NOT-DECIDED property={prop} rule={e.rule} (shared mechanism) at {e.where}: {e.reason}")
            ctx.not_decided.append(f"{e.rule} (shared mechanism, owned by another property) could not be decided on this tree: {e.reason[:160]}")
        if ctx.deferred:
            # rules that were undecidable on this tree: shown, and decisive (exit 2) unless some rule found a violation
            for e in ctx.deferred[1:]:
                print(f"ANALYSIS-ERROR property={prop} rule={e.rule} at {e.where}: {e.reason}")
            raise ctx.deferred[0]
        if tier == "thorough":
            thorough_extra(ctx, mod)
        if not ctx.instances:
            raise AnalysisError("driver", prop, "no obligation was evaluated (vacuous run)")
        return finish(ctx, t0, mod.META, seed)
    except AnalysisError as e:
        print(f"ANALYSIS-ERROR property={prop} rule={e.rule} at {e.where}: {e.reason}")
        return partial(ctx, mod, t0, seed, 2)
    except Exception as e:  # an analyser bug must never look like a violation
        print(f"ANALYSIS-ERROR property={prop} rule=internal at gv: {type(e).__name__}: {e}")
        traceback.print_exc(file=sys.stdout)
        return partial(ctx, mod, t0, seed, 2)


def partial(ctx, mod, t0, seed, code):
    """A rule that became undecidable does not erase violations that other rules already established."""
    if ctx is not None and mod is not None and any(i.verdict == "violated" for i in ctx.instances):
        ctx.notes.append("the run stopped at an undecidable rule; the violations reported were established before that")
        rc = finish(ctx, t0, mod.META, seed)
        return rc if rc == 1 else code
    return code


def thorough_extra(ctx, mod):
    """Thorough tier: the property's own deeper enumeration (if any) and the self-validation battery for this
    property (breaking variants and benign twins of the current tree, seeded changes), analysed statically."""
    if hasattr(mod, "thorough"):
        mod.thorough(ctx)
    from . import selftest

    res = selftest.battery(ctx.repo.root, only=ctx.prop)
    applicable = [r for r in res if r["status"] != "n/a"]
    miss = [r for r in applicable if r["status"] == "MISS"]
    for r in applicable:
        what = f"self-validation {r['kind']} variant `{r['name']}`: " + ("must be reported" if r["kind"] == "break" else "must stay silent")
        if r["status"] == "ok":
            ctx.holds("SELF", "scratch copy of /repo", what, exit=r.get("exit"), rules=r.get("rules"))
    ctx.notes.append(f"self-validation: {len(applicable)} variants of the current tree analysed ({len(res) - len(applicable)} not applicable to this tree), {len(miss)} not as expected")
    if miss and not any(i.verdict == "violated" for i in ctx.instances):
        m = miss[0]
        raise AnalysisError("SELF", "gv.selftest", f"{len(miss)} self-validation variant(s) not as expected, e.g. {m['kind']} `{m['name']}` -> exit {m.get('exit')}: the checker is unreliable for this tree")


def main(argv=None):
    ap = argparse.ArgumentParser(prog="gv")
    sub = ap.add_subparsers(dest="cmd", required=True)
    c = sub.add_parser("check")
    c.add_argument("prop")
    c.add_argument("--tier", default=os.environ.get("VERIF_TIER", "quick"), choices=["quick", "thorough"])
    c.add_argument("--repo", default="/repo")
    a = sub.add_parser("all")
    a.add_argument("--tier", default="quick", choices=["quick", "thorough"])
    a.add_argument("--repo", default="/repo")
    s = sub.add_parser("selftest")
    s.add_argument("--jobs", type=int, default=16)
    s.add_argument("--repo", default="/repo")
    s.add_argument("--only", default=None)
    args = ap.parse_args(argv)
    if args.cmd == "check":
        return run_check(args.prop, args.tier, args.repo)
    if args.cmd == "all":
        worst = 0
        for p in PROPS:
            try:
                importlib.import_module(f"gv.props.{p.lower()}")
            except ModuleNotFoundError:
                print(f"{p}: no check module")
                continue
            worst = max(worst, run_check(p, args.tier, args.repo))
        return worst
    if args.cmd == "selftest":
        from . import selftest

        return selftest.main(args)
    return 2


if __name__ == "__main__":
    sys.exit(main())
