"""Applying a filed patch (seeded change / benign refactoring) to a scratch copy of the current tree.

The patches were written against an earlier commit of /repo.  When `git apply` no longer accepts one because a later
repair touched the same file, the change is carried over by a three-way merge per file: base = the file at the commit the
patch was written against, theirs = base + patch, ours = the file of the current tree.  A conflict means the patch and a
repair changed the same lines: the patch is reported as not applicable."""
import os
import re
import shutil
import subprocess
import tempfile

DEFAULT_BASE = "da62386"


def apply_patch(dst, patch_file, base=None):
    """-> (ok, message).  dst: scratch copy (a git work tree initialised with `git init`)."""
    p = subprocess.run(["git", "apply", patch_file], cwd=dst, capture_output=True, text=True)
    if p.returncode == 0:
        return True, ""
    base = base or DEFAULT_BASE
    files = re.findall(r"^diff --git a/(\S+) b/(\S+)", open(patch_file).read(), re.M)
    tmp = tempfile.mkdtemp(prefix="gvmerge_", dir="/dev/shm" if os.path.isdir("/dev/shm") else None)
    try:
        # base tree of the touched files + the patch on top of it
        for a, b in files:
            q = subprocess.run(["git", "-C", "/repo", "show", f"{base}:{a}"], capture_output=True, text=True)
            os.makedirs(os.path.dirname(os.path.join(tmp, "base", a)), exist_ok=True)
            os.makedirs(os.path.dirname(os.path.join(tmp, "theirs", a)), exist_ok=True)
            if q.returncode == 0:
                open(os.path.join(tmp, "base", a), "w").write(q.stdout)
                open(os.path.join(tmp, "theirs", a), "w").write(q.stdout)
        subprocess.run(["git", "init", "-q", "."], cwd=os.path.join(tmp, "theirs"), capture_output=True)
        q = subprocess.run(["git", "apply", os.path.abspath(patch_file)], cwd=os.path.join(tmp, "theirs"), capture_output=True, text=True)
        if q.returncode != 0:
            return False, "patch does not apply to its base either: " + q.stderr[-200:]
        for a, b in files:
            ours = os.path.join(dst, b)
            theirs = os.path.join(tmp, "theirs", b)
            basef = os.path.join(tmp, "base", a)
            if not os.path.exists(theirs):  # file deleted by the patch
                if os.path.exists(ours):
                    os.remove(ours)
                continue
            if not os.path.exists(basef) or not os.path.exists(ours):  # new file
                os.makedirs(os.path.dirname(ours), exist_ok=True)
                shutil.copy(theirs, ours)
                continue
            m = subprocess.run(["git", "merge-file", "-q", ours, basef, theirs], capture_output=True, text=True)
            if m.returncode != 0:
                return False, f"conflict with a later repair in {b}"
        return True, "merged"
    finally:
        shutil.rmtree(tmp, ignore_errors=True)
