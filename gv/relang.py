"""E5 — facts about the language of a regular expression, from its parse tree (re._parser).

Only what the rules need: character sets of items, anchoring, capture-group structure of simple
sequence patterns (no alternation at top level), membership of constant strings (decided on the
parse tree by a small backtracking matcher over the supported node kinds).
"""

from __future__ import annotations

import re._constants as C  # type: ignore
import re._parser as P  # type: ignore


class RegexUnsupported(Exception):
    pass


def parse(pattern):
    return P.parse(pattern)


def charset_of(item):
    """Set of code points (0..127) a single-character item can match, or None if not single-char."""
    op, av = item
    if op is C.LITERAL:
        return {av}
    if op is C.NOT_LITERAL:
        return set(range(128)) - {av}
    if op is C.ANY:
        return set(range(128)) - {10}
    if op is C.IN:
        neg = False
        s = set()
        for o, a in av:
            if o is C.NEGATE:
                neg = True
            elif o is C.LITERAL:
                s.add(a)
            elif o is C.RANGE:
                s |= set(range(a[0], a[1] + 1))
            elif o is C.CATEGORY:
                s |= _category(a)
            else:
                raise RegexUnsupported(str(o))
        return (set(range(128)) - s) if neg else s
    return None


def _category(cat):
    import string

    if cat is C.CATEGORY_DIGIT:
        return set(map(ord, string.digits))
    if cat is C.CATEGORY_SPACE:
        return set(map(ord, " \t\n\r\f\v"))
    if cat is C.CATEGORY_WORD:
        return set(map(ord, string.ascii_letters + string.digits + "_"))
    if cat is C.CATEGORY_NOT_DIGIT:
        return set(range(128)) - set(map(ord, string.digits))
    if cat is C.CATEGORY_NOT_SPACE:
        return set(range(128)) - set(map(ord, " \t\n\r\f\v"))
    if cat is C.CATEGORY_NOT_WORD:
        return set(range(128)) - set(map(ord, string.ascii_letters + string.digits + "_"))
    raise RegexUnsupported(str(cat))


def flatten(seq):
    """Top-level sequence as a list of items: ('at', where) | ('char', set) | ('rep', lo, hi, [items]) |
    ('group', index, [items]) | ('branch', [[items], ...])"""
    out = []
    for op, av in seq:
        if op is C.AT:
            out.append(("at", av))
        elif op in (C.LITERAL, C.NOT_LITERAL, C.ANY, C.IN):
            out.append(("char", charset_of((op, av))))
        elif op in (C.MAX_REPEAT, C.MIN_REPEAT):
            lo, hi, sub = av
            out.append(("rep", lo, None if hi is C.MAXREPEAT else hi, flatten(sub)))
        elif op is C.SUBPATTERN:
            gid, _, _, sub = av
            out.append(("group", gid, flatten(sub)))
        elif op is C.BRANCH:
            out.append(("branch", [flatten(b) for b in av[1]]))
        else:
            raise RegexUnsupported(str(op))
    return out


def anchored_start(items):
    return bool(items) and items[0][0] == "at" and items[0][1] in (C.AT_BEGINNING, C.AT_BEGINNING_STRING)


def anchored_end(items):
    return bool(items) and items[-1][0] == "at" and items[-1][1] in (C.AT_END, C.AT_END_STRING)


def groups(items, acc=None):
    acc = {} if acc is None else acc
    for it in items:
        if it[0] == "group":
            if it[1] is not None:
                acc[it[1]] = it[2]
            groups(it[2], acc)
        elif it[0] == "rep":
            groups(it[3], acc)
        elif it[0] == "branch":
            for b in it[1]:
                groups(b, acc)
    return acc


def matches(items, s, full=True):
    """Does the item sequence match string s (from position 0; to the end if full)?"""

    def m(idx, pos):
        if idx == len(items):
            return (pos == len(s)) if full else True
        it = items[idx]
        if it[0] == "at":
            if it[1] in (C.AT_BEGINNING, C.AT_BEGINNING_STRING):
                return pos == 0 and m(idx + 1, pos)
            if it[1] in (C.AT_END, C.AT_END_STRING):
                return pos == len(s) and m(idx + 1, pos)
            raise RegexUnsupported(str(it[1]))
        if it[0] == "char":
            return pos < len(s) and ord(s[pos]) in it[1] and m(idx + 1, pos + 1)
        if it[0] == "group":
            return _seq_then(it[2], pos, lambda p: m(idx + 1, p))
        if it[0] == "branch":
            return any(_seq_then(b, pos, lambda p: m(idx + 1, p)) for b in it[1])
        if it[0] == "rep":
            lo, hi, sub = it[1], it[2], it[3]

            def rep(count, p):
                if count >= lo and m(idx + 1, p):
                    return True
                if hi is not None and count >= hi:
                    return False
                return _seq_then(sub, p, lambda q: q > p and rep(count + 1, q))

            return rep(0, pos)
        raise RegexUnsupported(str(it[0]))

    def _seq_then(sub, pos, k):
        def ms(i, p):
            if i == len(sub):
                return k(p)
            it = sub[i]
            if it[0] == "char":
                return p < len(s) and ord(s[p]) in it[1] and ms(i + 1, p + 1)
            if it[0] == "group":
                return _seq_then(it[2], p, lambda q: ms(i + 1, q))
            if it[0] == "branch":
                return any(_seq_then(b, p, lambda q: ms(i + 1, q)) for b in it[1])
            if it[0] == "rep":
                lo, hi, body = it[1], it[2], it[3]

                def rep(count, q):
                    if count >= lo and ms(i + 1, q):
                        return True
                    if hi is not None and count >= hi:
                        return False
                    return _seq_then(body, q, lambda r: r > q and rep(count + 1, r))

                return rep(0, p)
            if it[0] == "at":
                if it[1] in (C.AT_END, C.AT_END_STRING):
                    return p == len(s) and ms(i + 1, p)
                if it[1] in (C.AT_BEGINNING, C.AT_BEGINNING_STRING):
                    return p == 0 and ms(i + 1, p)
            raise RegexUnsupported(str(it[0]))

        return ms(0, pos)

    return m(0, 0)


# ---------------------------------------------------------------------------------------------
# automata: language inclusion between two patterns (ASCII alphabet 0..127)
# ---------------------------------------------------------------------------------------------

ALPHABET = frozenset(range(128))


class NFA:
    def __init__(self):
        self.n = 0
        self.eps = {}
        self.trans = {}  # state -> list of (frozenset(chars), target)

    def new(self):
        self.n += 1
        return self.n - 1

    def add_eps(self, a, b):
        self.eps.setdefault(a, set()).add(b)

    def add(self, a, chars, b):
        self.trans.setdefault(a, []).append((frozenset(chars), b))


def _build(nfa, items, start):
    """Thompson construction; returns the end state.  Anchors are only legal at the ends and are
    handled by the caller (strip_anchors)."""
    cur = start
    for it in items:
        k = it[0]
        if k == "char":
            nxt = nfa.new()
            nfa.add(cur, it[1] & ALPHABET, nxt)
            cur = nxt
        elif k == "group":
            cur = _build(nfa, it[2], cur)
        elif k == "branch":
            end = nfa.new()
            for b in it[1]:
                s0 = nfa.new()
                nfa.add_eps(cur, s0)
                e0 = _build(nfa, b, s0)
                nfa.add_eps(e0, end)
            cur = end
        elif k == "rep":
            lo, hi, sub = it[1], it[2], it[3]
            for _ in range(lo):
                cur = _build(nfa, sub, cur)
            if hi is None:
                loop_s = nfa.new()
                nfa.add_eps(cur, loop_s)
                loop_e = _build(nfa, sub, loop_s)
                nfa.add_eps(loop_e, loop_s)
                cur = loop_s
            else:
                if hi - lo > 64:
                    raise RegexUnsupported("bounded repeat too large")
                end = nfa.new()
                nfa.add_eps(cur, end)
                for _ in range(hi - lo):
                    cur = _build(nfa, sub, cur)
                    nfa.add_eps(cur, end)
                cur = end
        elif k == "at":
            raise RegexUnsupported("anchor inside a pattern")
        else:
            raise RegexUnsupported(k)
    return cur


def strip_anchors(items):
    a0 = anchored_start(items)
    a1 = anchored_end(items)
    core = items[(1 if a0 else 0) : (len(items) - 1 if a1 else len(items))]
    return core, a0, a1


ANY_STAR = [("rep", 0, None, [("char", set(ALPHABET))])]


def language_items(items, mode="fullmatch"):
    """Item sequence whose *full-match* language is the set of strings accepted by re.<mode>(pattern, s)."""
    core, a0, a1 = strip_anchors(items)
    if mode == "fullmatch":
        return core
    if mode == "match":
        return core + ([] if a1 else ANY_STAR)
    if mode == "search":
        return ([] if a0 else ANY_STAR) + core + ([] if a1 else ANY_STAR)
    raise ValueError(mode)


class DFA:
    def __init__(self, items):
        nfa = NFA()
        s0 = nfa.new()
        end = _build(nfa, items, s0)
        self.nfa = nfa
        self.accept_state = end
        self.start = self._closure({s0})

    def _closure(self, states):
        stack = list(states)
        out = set(states)
        while stack:
            x = stack.pop()
            for y in self.nfa.eps.get(x, ()):
                if y not in out:
                    out.add(y)
                    stack.append(y)
        return frozenset(out)

    def step(self, state, ch):
        nxt = set()
        for x in state:
            for chars, t in self.nfa.trans.get(x, ()):
                if ch in chars:
                    nxt.add(t)
        return self._closure(nxt)

    def accepting(self, state):
        return self.accept_state in state

    def classes(self):
        sets = set()
        for lst in self.nfa.trans.values():
            for chars, _ in lst:
                sets.add(chars)
        return sets


def _partition(sets):
    """Partition of the alphabet into blocks on which every char set is constant; returns one representative per block."""
    blocks = {}
    for c in ALPHABET:
        sig = tuple(c in s for s in sets)
        blocks.setdefault(sig, c)
    return sorted(blocks.values())


def included(items_a, items_b, max_states=20000):
    """L(a) subset of L(b) (both as full-match languages)?  -> (True, None) or (False, witness string)."""
    A, B = DFA(items_a), DFA(items_b)
    reps = _partition(list(A.classes() | B.classes()))
    # prefer printable representatives for readable witnesses
    start = (A.start, B.start)
    seen = {start: None}
    queue = [start]
    qi = 0
    while qi < len(queue):
        sa, sb = queue[qi]
        qi += 1
        if A.accepting(sa) and not B.accepting(sb):
            # reconstruct witness
            w = []
            cur = (sa, sb)
            while seen[cur] is not None:
                prev, ch = seen[cur]
                w.append(chr(ch))
                cur = prev
            return False, "".join(reversed(w))
        for ch in reps:
            na = A.step(sa, ch)
            if not na:
                continue
            nb = B.step(sb, ch)
            nxt = (na, nb)
            if nxt not in seen:
                seen[nxt] = ((sa, sb), ch)
                queue.append(nxt)
                if len(seen) > max_states:
                    raise RegexUnsupported("product automaton too large")
    return True, None


def all_end_with(items, ch):
    """Every string of the (full-match) language ends with character ch (and the language has no empty string)."""
    core, _, _ = strip_anchors(items)
    ok, w = included(core, ANY_STAR + [("char", {ord(ch)})])
    return ok


def group_capture(items, s, gid, full=False):
    """Text captured by group gid when matching `items` against s with re.match semantics
    (greedy, first match).  Implemented by trying the real `re` module on the *pattern text* is
    not possible here (we only have items), so this is computed by a greedy search: returns the
    longest capture among successful matches — adequate for the simple tag patterns analysed."""
    raise NotImplementedError
