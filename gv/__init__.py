"""gv — static analysis of marschall-lab/gaftools against properties C01..C20.

Pure standard library.  Nothing from gaftools is imported or executed: every rule works on the
syntax trees of /repo's current working tree (see DESIGN.md).
"""

__all__ = ["core", "paths", "ordtab", "tmpl", "relang"]
