"""E3 — abstract string templates (tab-separated record models).

Abstract value of a string expression: a list of parts

  ("lit", text)
  ("hole", expr_ast, conversion)        conversion: 's', 'd', '' (f-string), ...
  ("rep", parts, loop_node)             zero or more repetitions of a sub-template (a loop that appends)
  ("opaque", expr_ast)                  a string-valued expression the engine does not look into

Transfer functions: constants, f-strings, `fmt % tuple`, `str.format` (positional `{}` only),
`+`, `"sep".join([...] + xs)`, and — along one control-flow path — `x = t`, `x += t`,
`h.write(t)`, `print(t, file=h)` (adds a newline).
"""

from __future__ import annotations

import ast
import re

from .core import AnalysisError, norm
from .paths import Ev

_PCT = re.compile(r"%(?:\((\w+)\))?([#0\- +]*)(\d+|\*)?(?:\.(\d+|\*))?([diouxXeEfFgGcrsa%])")


class TemplateError(Exception):
    pass


def of_expr(e, env=None):
    """Template of a string-valued expression.  env: name -> template (for local string vars)."""
    env = env or {}
    if isinstance(e, ast.Constant):
        if isinstance(e.value, str):
            return [("lit", e.value)] if e.value != "" else []
        return [("lit", str(e.value))]
    if isinstance(e, ast.JoinedStr):
        out = []
        for v in e.values:
            if isinstance(v, ast.Constant):
                out.append(("lit", v.value))
            elif isinstance(v, ast.FormattedValue):
                out.append(("hole", v.value, ""))
        return _merge(out)
    if isinstance(e, ast.BinOp) and isinstance(e.op, ast.Mod) and _is_strlike(e.left, env):
        fmt = _const_str(e.left)
        if fmt is None:
            return [("opaque", e)]
        args = list(e.right.elts) if isinstance(e.right, ast.Tuple) else [e.right]
        if not isinstance(e.right, ast.Tuple) and isinstance(e.right, (ast.Name, ast.Attribute, ast.Subscript, ast.Call)) and len([m_ for m_ in _PCT.finditer(fmt) if m_.group(5) != "%"]) > 1:
            # `"%s-%s" % row` with a row that is itself a tuple (a namedtuple record): its fields fill the placeholders
            args = [ast.copy_location(ast.Subscript(value=e.right, slice=ast.Constant(value=i_), ctx=ast.Load()), e.right) for i_ in range(len([m_ for m_ in _PCT.finditer(fmt) if m_.group(5) != "%"]))]
        return _percent(fmt, args, e)
    if isinstance(e, ast.BinOp) and isinstance(e.op, ast.Add):
        return _merge(of_expr(e.left, env) + of_expr(e.right, env))
    if isinstance(e, ast.Call):
        f = e.func
        if isinstance(f, ast.Attribute) and f.attr == "format" and _const_str(f.value) is not None and not e.keywords:
            return _format(_const_str(f.value), e.args, e)
        if isinstance(f, ast.Attribute) and f.attr == "join" and _const_str(f.value) is not None and len(e.args) == 1:
            return _join(_const_str(f.value), e.args[0], env)
        if isinstance(f, ast.Name) and f.id == "str" and len(e.args) == 1:
            inner = e.args[0]
            if isinstance(inner, (ast.JoinedStr, ast.BinOp)) or (isinstance(inner, ast.Call) and isinstance(inner.func, ast.Attribute) and inner.func.attr in ("join", "format")):
                return of_expr(inner, env)
            return [("hole", inner, "s")]
    if isinstance(e, ast.Name) and e.id in env:
        return list(env[e.id])
    return [("hole", e, "")]


def _is_strlike(e, env):
    return _const_str(e) is not None or isinstance(e, ast.JoinedStr)


def _const_str(e):
    if isinstance(e, ast.Constant) and isinstance(e.value, str):
        return e.value
    return None


def _merge(parts):
    out = []
    for p in parts:
        if p[0] == "lit" and out and out[-1][0] == "lit":
            out[-1] = ("lit", out[-1][1] + p[1])
        elif p[0] == "lit" and p[1] == "":
            continue
        else:
            out.append(p)
    return out


def _percent(fmt, args, node):
    out = []
    pos = 0
    i = 0
    for m in _PCT.finditer(fmt):
        if m.start() > pos:
            out.append(("lit", fmt[pos : m.start()]))
        pos = m.end()
        conv = m.group(5)
        if conv == "%":
            out.append(("lit", "%"))
            continue
        if m.group(1):
            raise TemplateError(f"named % placeholders not supported: {fmt!r}")
        if i >= len(args):
            out.append(("arity", node, f"format has more placeholders than arguments ({len(args)})"))
            i += 1
            continue
        a_ = args[i]
        if conv == "s" and m.group(0) == "%s" and isinstance(a_, ast.Constant) and isinstance(a_.value, str):
            out.append(("lit", a_.value))  # a constant string filled into %s is that text
        else:
            out.append(("hole", a_, conv))
        i += 1
    if pos < len(fmt):
        out.append(("lit", fmt[pos:]))
    if i < len(args):
        out.append(("arity", node, f"format has {i} placeholders but {len(args)} arguments"))
    return _merge(out)


def _format(fmt, args, node):
    out = []
    pos = 0
    i = 0
    for m in re.finditer(r"\{(\d*)(?::[^}]*)?\}|\{\{|\}\}", fmt):
        if m.start() > pos:
            out.append(("lit", fmt[pos : m.start()]))
        pos = m.end()
        if m.group(0) in ("{{", "}}"):
            out.append(("lit", m.group(0)[0]))
            continue
        idx = int(m.group(1)) if m.group(1) else i
        i += 1
        if idx >= len(args):
            out.append(("arity", node, "format index out of range"))
            continue
        out.append(("hole", args[idx], ""))
    if pos < len(fmt):
        out.append(("lit", fmt[pos:]))
    return _merge(out)


def _join(sep, arg, env):
    """sep.join(<list expr>): list literal (+ list var)*"""
    # every element written with str(): map(str, L) / (str(x) for x in L) is L for the purpose of the template
    if isinstance(arg, ast.Call) and isinstance(arg.func, ast.Name) and arg.func.id == "map" and len(arg.args) == 2 and norm(arg.args[0]) == "str":
        arg = arg.args[1]
    elif isinstance(arg, (ast.GeneratorExp, ast.ListComp)) and len(arg.generators) == 1 and not arg.generators[0].ifs and isinstance(arg.generators[0].target, ast.Name) and norm(arg.elt) == f"str({arg.generators[0].target.id})" and isinstance(arg.generators[0].iter, ast.Name) and arg.generators[0].iter.id in env and env[arg.generators[0].iter.id] and env[arg.generators[0].iter.id][0][0] == "listvar":
        arg = arg.generators[0].iter
    if isinstance(arg, ast.Name) and arg.id in env and env[arg.id] and env[arg.id][0][0] == "listvar":
        return join_entries(sep, env[arg.id][0][1], arg)
    if isinstance(arg, (ast.GeneratorExp, ast.ListComp)) and len(arg.generators) == 1 and not arg.generators[0].ifs and isinstance(arg.generators[0].target, ast.Name):
        # sep.join(f(x) for x in L) over a list literal / a local list of known items: one f(item) per item
        src = arg.generators[0].iter
        items = None
        if isinstance(src, (ast.List, ast.Tuple)):
            items = list(src.elts)
        elif isinstance(src, ast.Name) and src.id in env and env[src.id] and env[src.id][0][0] == "listvar" and all(e[0] == "item" and len(e) == 3 for e in env[src.id][0][1]):
            items = [e[2] for e in env[src.id][0][1]]
        if items is not None:
            import copy

            class S(ast.NodeTransformer):
                def __init__(self, name, repl):
                    self.name, self.repl = name, repl

                def visit_Name(self, node):
                    if node.id == self.name and isinstance(node.ctx, ast.Load):
                        return copy.deepcopy(self.repl)
                    return node

            ents = []
            for it in items:
                e2 = S(arg.generators[0].target.id, it).visit(copy.deepcopy(arg.elt))
                ast.fix_missing_locations(e2)
                ents.append(("item", of_expr(e2, env), e2))
            return join_entries(sep, ents, arg)
    if sep == "" and isinstance(arg, (ast.ListComp, ast.GeneratorExp)):
        return [comp_entry(arg)]  # "".join(f(x) for x in xs): zero or more repetitions of f(x), nothing between them
    items = _list_items(arg)
    if items is None:
        return [("hole", ast.Call(func=ast.Attribute(value=ast.Constant(sep), attr="join", ctx=ast.Load()), args=[arg], keywords=[]), "")]
    out = []
    first = True
    for kind, x in items:
        if kind == "item":
            if not first:
                out.append(("lit", sep))
            out += of_expr(x, env)
            first = False
        elif isinstance(x, (ast.ListComp, ast.GeneratorExp)):
            ent = comp_entry(x)
            out.append(("rep", _merge([("lit", sep)] + ent[1]), ent[2]))
        else:  # a list-valued expression spliced in: zero or more items, each preceded by sep
            out.append(("rep", [("lit", sep), ("hole", x, "item")], None))
    return _merge(out)


def join_entries(sep, entries, node):
    """sep.join(L) for a list variable built as [items...] followed by append/extend calls."""
    out = []
    first = True
    for ent in entries:
        if ent[0] == "item":
            if not first:
                out.append(("lit", sep))
            out += ent[1]
            first = False
        else:  # ("rep", parts, loop): zero or more items, each preceded by the separator
            if first:
                return [("opaque", node)]
            out.append(("rep", _merge([("lit", sep)] + ent[1]), ent[2]))
    return _merge(out)


def comp_entry(comp):
    """A list comprehension / generator spliced into a list: ('rep', template of the element, pseudo for-loop)."""
    if len(comp.generators) != 1 or comp.generators[0].is_async:
        return ("rep", [("opaque", comp)], None)
    g = comp.generators[0]
    loop = ast.For(target=g.target, iter=g.iter, body=[], orelse=[])
    ast.copy_location(loop, comp)
    if g.ifs:
        loop.gv_filters, loop.gv_elt = list(g.ifs), of_expr(comp.elt)
        return ("rep", [("opaque", ast.Constant(value="filtered tag loop: " + norm(g.ifs[0])[:60]))], loop)
    return ("rep", of_expr(comp.elt), loop)


def _list_items(e):
    if isinstance(e, (ast.List, ast.Tuple)):
        return [("item", x) for x in e.elts]
    if isinstance(e, ast.BinOp) and isinstance(e.op, ast.Add):
        l = _list_items(e.left)
        r = _list_items(e.right)
        if l is None and r is None:
            return None
        return (l if l is not None else [("splice", e.left)]) + (r if r is not None else [("splice", e.right)])
    return None


# ---------------------------------------------------------------------------------------------
# columns
# ---------------------------------------------------------------------------------------------


def columns(parts, sep="\t"):
    """Split a template at the separator occurring in its literals.
    -> list of columns; a column is a list of parts.  A ("rep", ...) part stays inside the column
    in which it starts (its own leading separator is kept inside the rep)."""
    cols = [[]]
    for p in parts:
        if p[0] == "lit":
            segs = p[1].split(sep)
            for k, s in enumerate(segs):
                if k > 0:
                    cols.append([])
                if s != "":
                    cols[-1].append(("lit", s))
        else:
            cols[-1].append(p)
    return cols


def show(parts):
    out = []
    for p in parts:
        if p[0] == "lit":
            out.append(repr(p[1])[1:-1])
        elif p[0] == "hole":
            out.append("{" + norm(p[1]) + (":" + p[2] if p[2] else "") + "}")
        elif p[0] == "rep":
            out.append("(" + show(p[1]) + ")*")
        elif p[0] == "opaque":
            out.append("<" + norm(p[1]) + ">")
        elif p[0] == "arity":
            out.append("<ARITY:" + p[2] + ">")
    return "".join(out)


def holes(parts):
    for p in parts:
        if p[0] == "hole":
            yield p
        elif p[0] == "rep":
            yield from holes(p[1])


def arity_errors(parts):
    for p in parts:
        if p[0] == "arity":
            yield p
        elif p[0] == "rep":
            yield from arity_errors(p[1])


# ---------------------------------------------------------------------------------------------
# building a template along a control-flow path
# ---------------------------------------------------------------------------------------------


def is_write_call(call, handle_names=None):
    """h.write(x) -> ('write', h, x);  print(x, file=h) -> ('print', h, x)"""
    if not isinstance(call, ast.Call):
        return None
    f = call.func
    if isinstance(f, ast.Attribute) and f.attr == "write" and len(call.args) == 1:
        h = norm(f.value)
        if handle_names is None or h in handle_names:
            return ("write", h, call.args[0])
    if isinstance(f, ast.Name) and f.id == "print":
        fh = [k.value for k in call.keywords if k.arg == "file"]
        if fh and len(call.args) >= 1:
            h = norm(fh[0])
            if handle_names is None or h in handle_names:
                return ("print", h, call.args[0])
    return None


class Builder:
    """Folds the events of one path into (a) the value of tracked string variables and (b) the
    sequence of text written to tracked handles."""

    def __init__(self, track_vars=(), handles=None, loop_body_template=None):
        self.env = {v: None for v in track_vars}
        self.track = set(track_vars)
        self.handles = handles
        self.out = []  # parts written to the handle(s)
        self.loop_body_template = loop_body_template  # callable(loop_node, builder) -> handles a summarised loop

    def feed(self, ev: Ev):
        if ev.kind == "stmt":
            self.stmt(ev.node)
        elif ev.kind == "loop":
            if self.loop_body_template:
                self.loop_body_template(ev.node, self)

    def _list_entries(self, e):
        if isinstance(e, (ast.List, ast.Tuple)):
            return [("item", of_expr(x, self._env()), x) for x in e.elts]
        if isinstance(e, (ast.ListComp, ast.GeneratorExp)):
            return [comp_entry(e)]
        return None

    def stmt(self, st):
        if isinstance(st, ast.Assign) and len(st.targets) == 1 and isinstance(st.targets[0], ast.Name):
            v = st.targets[0].id
            if v in self.track:
                ents = self._list_entries(st.value) if isinstance(st.value, (ast.List, ast.Tuple)) else None
                if ents is not None:
                    self.env[v] = [("listvar", ents)]
                else:
                    self.env[v] = of_expr(st.value, self._env())
        elif isinstance(st, ast.Expr) and isinstance(st.value, ast.Call) and isinstance(st.value.func, ast.Attribute) and isinstance(st.value.func.value, ast.Name) and st.value.func.value.id in self.track and st.value.func.attr in ("append", "extend") and len(st.value.args) == 1:
            v = st.value.func.value.id
            cur = self.env.get(v)
            if cur and cur[0][0] == "listvar":
                if st.value.func.attr == "append":
                    cur[0][1].append(("item", of_expr(st.value.args[0], self._env()), st.value.args[0]))
                else:
                    ents = self._list_entries(st.value.args[0])
                    cur[0][1].extend(ents if ents is not None else [("rep", [("opaque", st.value.args[0])], None)])
        elif isinstance(st, ast.AugAssign) and isinstance(st.op, ast.Add) and isinstance(st.target, ast.Name) and st.target.id in self.track and self.env.get(st.target.id) and self.env[st.target.id][0][0] == "listvar":
            # L += [items] / L += [comprehension]: like extend
            ents = self._list_entries(st.value)
            self.env[st.target.id][0][1].extend(ents if ents is not None else [("rep", [("opaque", st.value)], None)])
        elif isinstance(st, ast.AugAssign) and isinstance(st.op, ast.Add) and isinstance(st.target, ast.Name):
            v = st.target.id
            if v in self.track:
                cur = self.env.get(v)
                self.env[v] = _merge((cur if cur is not None else [("hole", ast.Name(id=v, ctx=ast.Load()), "")]) + of_expr(st.value, self._env()))
        elif isinstance(st, ast.Expr):
            w = is_write_call(st.value, self.handles)
            if w:
                kind, h, arg = w
                t = of_expr(arg, self._env())
                if kind == "print":
                    t = t + [("lit", "\n")]
                self.out = _merge(self.out + t)

    def _env(self):
        return {k: v for k, v in self.env.items() if v is not None}
