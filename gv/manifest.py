"""Regenerates /verif/MANIFEST.json from the property modules that exist (python -m gv.manifest)."""

from __future__ import annotations

import importlib
import json
import os

from .core import VERIF

PROPS = [f"C{i:02d}" for i in range(1, 21)]

LEVEL_NOTE = (
    "Trusted base: CPython's ast parser and the Python semantics of the analysed fragment; the rule tables in /verif/gv (each rule's "
    "oracle is stated in DESIGN.md section 3); library contracts named in the evidence file's assumptions (pysam BGZF offsets, "
    "multiprocessing.Queue delivery, pyWFA). Clauses listed under coverage.not_decided in the evidence file are NOT decided by this check."
)


def build():
    checks = []
    na = []
    for p in PROPS:
        try:
            m = importlib.import_module(f"gv.props.{p.lower()}")
        except ModuleNotFoundError:
            na.append({"property_id": p, "reason": "check not built yet (static rules designed in DESIGN.md section 3)"})
            continue
        if getattr(m, "NOT_APPLICABLE", None):
            na.append({"property_id": p, "reason": m.NOT_APPLICABLE})
            continue
        checks.append(
            {
                "property_id": p,
                "quick_cmd": f"/venv/bin/python -m gv check {p} --tier quick",
                "thorough_cmd": f"/venv/bin/python -m gv check {p} --tier thorough",
                "evidence_file": f"/verif/evidence/{p}.json",
                "replay_cmd_template": f"/venv/bin/python -m gv check {p} --tier quick  # replay file {{path}} names the construct, rule and witness",
                "engine": "gv",
                "level_claimed": {
                    "category": "other",
                    "text": m.META.get("level", m.META["explanation"]),
                    "design_ref": f"DESIGN.md section 3, {p}",
                },
                "level_note": LEVEL_NOTE,
                "technique": m.META.get("technique", "static analysis: AST rules, structured control-flow paths, finite order-type decision tables, string templates"),
            }
        )
    man = {
        "version": 1,
        "setup_cmd": "/venv/bin/python -m compileall -q /verif/gv",
        "hooks": {
            "guard": "GAFTOOLS_VERIF",
            "enable": "no hooks: the checks parse /repo's working tree, nothing is built or instrumented (guard declared, unused)",
            "baseline_off_cmd": "cd /repo && /venv/bin/python -m pytest -ra -q -p no:cacheprovider --timeout=900 --continue-on-collection-errors",
            "source_commits": [],
            "add_only": True,
        },
        "engines": [
            {
                "name": "gv",
                "path": "/verif/gv",
                "serves_properties": [c["property_id"] for c in checks],
                "kind_free_text": "repository-specific static analyser (stdlib ast): resolved source model, structured path enumeration with syntactic feasibility pruning, finite order-type decision tables, tab-separated string templates, regex language facts, literal-table algebra",
            }
        ],
        "checks": checks,
        "notes": "All checks are static: they read /repo/gaftools/**/*.py on every run, never import or execute gaftools. Exit 0 = held (KNOWN-FINDING lines possible), 1 = VIOLATION, 2 = ANALYSIS-ERROR (undecidable, fail-closed). Known findings: /verif/known_findings.json. Every check first evaluates the model-free lint families R00.7-R00.13 (library pitfalls, lifecycle / laziness, tolerance code, expressions that mean something else) over the source files its property depends on, then the property's own rules and the rule bundles of the mechanisms it rests on (reader, tag parser, graph loader, index, command-line layer). Self-validation corpora: /verif/seeded (747 property-breaking changes by independent sub-agents, each confirmed in a scratch worktree) and /verif/benign (421 behaviour-preserving patches; 18 more with open false alarms of shape rules on refactored code are listed in /verif/benign_open); `python -m gv selftest` replays them against the current tree.",
        "not_applicable": na,
    }
    return man


if __name__ == "__main__":
    man = build()
    with open(os.path.join(VERIF, "MANIFEST.json"), "w") as fh:
        json.dump(man, fh, indent=1)
    print(f"MANIFEST.json: {len(man['checks'])} checks, {len(man['not_applicable'])} not applicable")
