#!/venv/bin/python
"""Run the checks against every seeded change under /verif/seeded (applied to a scratch copy of /repo's
working tree, never to /repo itself) and print which checks report it.

usage: run_seeded.py [--all-props] [NAME ...]
Writes /verif/seeded/MATRIX.json: {seed: {property: exit code}} and the rules that fired.
"""

import json
import os
import re
import shutil
import subprocess
import sys
import tempfile
from concurrent.futures import ThreadPoolExecutor

sys.path.insert(0, "/verif")
from gv.patching import apply_patch  # noqa: E402

PY = "/venv/bin/python"
PROPS = [f"C{i:02d}" for i in range(1, 21)]


def run(seed, all_props):
    d = f"/verif/seeded/{seed}"
    prop = seed.split("-")[0]
    tmp = tempfile.mkdtemp(prefix="gvseed_", dir="/dev/shm" if os.path.isdir("/dev/shm") else None)
    try:
        dst = os.path.join(tmp, "repo")
        os.makedirs(dst)
        subprocess.run(f"cd /repo && git ls-files -z gaftools docs | xargs -0 cp --parents -t {dst}", shell=True, check=True)
        subprocess.run(["git", "init", "-q", "."], cwd=dst, capture_output=True)
        ok, msg = apply_patch(dst, f"{d}/patch.diff")
        if not ok:
            return seed, {"error": "patch does not apply: " + msg}
        res = {}
        props = PROPS if all_props else [prop]
        for pr in props:
            # each run writes evidence under /verif/evidence: use a private VERIF copy to keep the committed evidence intact
            env = dict(os.environ, GV_EVIDENCE_DIR=os.path.join(tmp, "ev"))
            q = subprocess.run([PY, "-m", "gv", "check", pr, "--repo", dst], cwd="/verif", capture_output=True, text=True, env=env)
            rules = sorted(set(re.findall(r"rule (R[\d.]+)", q.stdout)))
            res[pr] = {"exit": q.returncode, "rules": rules, "err": (re.findall(r"ANALYSIS-ERROR.*", q.stdout) or [""])[0][:200]}
        return seed, res
    finally:
        shutil.rmtree(tmp, ignore_errors=True)


if __name__ == "__main__":
    args = [a for a in sys.argv[1:] if not a.startswith("--")]
    all_props = "--all-props" in sys.argv
    seeds = args or sorted(x for x in os.listdir("/verif/seeded") if os.path.isdir(f"/verif/seeded/{x}"))
    out = {}
    with ThreadPoolExecutor(16) as ex:
        for seed, res in ex.map(lambda s: run(s, all_props), seeds):
            out[seed] = res
            own = seed.split("-")[0]
            o = res.get(own, {})
            others = [p for p, r in res.items() if p != own and isinstance(r, dict) and r.get("exit") == 1]
            print(f"{seed:10s} own check: exit {o.get('exit')} {','.join(o.get('rules', []))} {o.get('err', '')}" + (f"   also: {','.join(others)}" if others else ""))
    if not args:
        json.dump(out, open("/verif/seeded/MATRIX.json", "w"), indent=1, sort_keys=True)
    missed = [s for s, r in out.items() if r.get(s.split("-")[0], {}).get("exit") != 1]
    print(f"{len(out) - len(missed)}/{len(out)} seeded changes reported by their own property's check; missed: {missed}")
