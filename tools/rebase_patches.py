#!/venv/bin/python
"""Re-write filed patches (seeded / benign) that no longer apply to /repo's HEAD: three-way merge per file (see gv/patching.py),
then patch.diff is replaced by the diff of the merged tree against HEAD; meta.json records the re-basing."""
import json, os, shutil, subprocess, sys, tempfile

sys.path.insert(0, "/verif")
from gv.patching import apply_patch

head = subprocess.run("git -C /repo rev-parse --short HEAD", shell=True, capture_output=True, text=True).stdout.strip()
for kind in ("seeded", "benign"):
    for name in sorted(os.listdir(f"/verif/{kind}")):
        d = f"/verif/{kind}/{name}"
        pf = f"{d}/patch.diff"
        if not os.path.isfile(pf):
            continue
        tmp = tempfile.mkdtemp(dir="/dev/shm")
        try:
            a = os.path.join(tmp, "a"); b = os.path.join(tmp, "b")
            for x in (a, b):
                os.makedirs(x)
                subprocess.run(f"cd /repo && git ls-files -z gaftools docs | xargs -0 cp --parents -t {x}", shell=True, check=True)
            subprocess.run(["git", "init", "-q", "."], cwd=b, capture_output=True)
            if subprocess.run(["git", "apply", "--check", pf], cwd=b, capture_output=True).returncode == 0:
                continue
            ok, msg = apply_patch(b, pf)
            if not ok:
                print(f"{kind}/{name}: CONFLICT ({msg})")
                continue
            shutil.rmtree(os.path.join(b, ".git"))
            q = subprocess.run(["git", "diff", "--no-index", "--no-prefix", "a", "b"], cwd=tmp, capture_output=True, text=True)
            diff = q.stdout.replace("--- a/", "--- a/").replace("+++ b/", "+++ b/")
            # normalise paths: a/gaftools/... b/gaftools/...
            diff = diff.replace("diff --git a/gaftools", "diff --git a/gaftools").replace(" b/gaftools", " b/gaftools")
            open(pf, "w").write(diff)
            mp = f"{d}/meta.json"
            meta = json.load(open(mp)) if os.path.exists(mp) else {}
            meta["rebased_onto"] = head
            json.dump(meta, open(mp, "w"), indent=1)
            print(f"{kind}/{name}: rebased onto {head}")
        finally:
            shutil.rmtree(tmp, ignore_errors=True)
