#!/venv/bin/python
"""Confirm a sub-agent's seeded change in a scratch worktree of /repo and file it under /verif/seeded/.

usage: validate_seeded.py /tmp/seed/out/C08/m1 [...]

For each directory (patch.diff, demo.py, meta.json): a fresh worktree of /repo HEAD is created under
/tmp/seedchk, the demo is run without the patch (must exit 0), the patch is applied, the package must
byte-compile, the pinned test suite must pass (54), the demo must now fail; the worktree is removed.
Only then the change is copied to /verif/seeded/<PROP>-<mK>/ with the log of what was run.
"""

import json
import os
import shutil
import subprocess
import sys
from concurrent.futures import ThreadPoolExecutor

PY = "/venv/bin/python"


def sh(cmd, cwd, timeout=900, env=None):
    e = dict(os.environ)
    e.update(env or {})
    p = subprocess.run(cmd, cwd=cwd, shell=True, capture_output=True, text=True, timeout=timeout, env=e)
    return p.returncode, (p.stdout + p.stderr)[-3000:]


def one(src):
    src = os.path.abspath(src)
    prop = os.path.basename(os.path.dirname(src))
    mk = os.path.basename(src)
    name = f"{prop}-{mk}"
    if "/out2/" in src:
        name = f"{prop}-n{mk[1:]}"  # second round of sub-agents
    elif "/out3/" in src:
        name = f"{prop}-x{mk[1:]}"
    elif "/out4/" in src:
        name = f"{prop}-y{mk[1:]}"
    elif "/out5/" in src:
        name = f"{prop}-z{mk[1:]}"
    elif "/out6/" in src:
        name = f"{prop}-w{mk[1:]}"
    elif "/out7/" in src:
        name = f"{prop}-v{mk[1:]}"
    elif "/out8/" in src:
        name = f"{prop}-p{mk[1:]}"
    elif "/out9/" in src:
        name = f"{prop}-q{mk[1:]}"
    elif "/out10/" in src:
        name = f"{prop}-k{mk[1:]}"
    elif "/out11/" in src:
        name = f"{prop}-j{mk[1:]}"
    elif "/out12/" in src:
        name = f"{prop}-h{mk[1:]}"
    elif "/out13/" in src:
        name = f"{prop}-g{mk[1:]}"
    wt = f"/tmp/seedchk/{name}"
    os.makedirs("/tmp/seedchk", exist_ok=True)
    subprocess.run(f"git -C /repo worktree remove --force {wt}", shell=True, capture_output=True)
    rc, out = sh(f"git -C /repo worktree add -q --detach {wt} HEAD", "/")
    log = []
    ok = False
    try:
        env = {"PYTHONPATH": wt, "PYTHONDONTWRITEBYTECODE": "1"}
        rc0, o0 = sh(f"{PY} {src}/demo.py", wt, env=env)
        log.append({"cmd": "demo.py on clean worktree", "exit": rc0, "tail": o0[-300:]})
        rca, oa = sh(f"git apply {src}/patch.diff", wt)
        log.append({"cmd": "git apply patch.diff", "exit": rca, "tail": oa[-300:]})
        rcc, oc = sh(f"{PY} -m compileall -q gaftools", wt, env=env)
        log.append({"cmd": "compileall gaftools (with patch)", "exit": rcc, "tail": oc[-300:]})
        rct, ot = sh(f"{PY} -m pytest -q -p no:cacheprovider --timeout=900", wt, env=env)
        log.append({"cmd": "pytest (with patch)", "exit": rct, "tail": ot[-200:]})
        rc1, o1 = sh(f"{PY} {src}/demo.py", wt, env=env)
        log.append({"cmd": "demo.py with patch", "exit": rc1, "tail": o1[-600:]})
        ok = rc0 == 0 and rca == 0 and rcc == 0 and rct == 0 and "54 passed" in ot and rc1 != 0
    finally:
        subprocess.run(f"git -C /repo worktree remove --force {wt}", shell=True, capture_output=True)
        shutil.rmtree(wt, ignore_errors=True)
    if ok:
        dst = f"/verif/seeded/{name}"
        os.makedirs(dst, exist_ok=True)
        shutil.copy(f"{src}/patch.diff", dst)
        shutil.copy(f"{src}/demo.py", dst)
        meta = {}
        try:
            meta = json.load(open(f"{src}/meta.json"))
        except Exception as e:
            meta = {"note": f"sub-agent meta.json unreadable: {e}"}
        out = {
            "property": prop,
            "breaks": meta.get("summary", ""),
            "needs": meta.get("needs", ""),
            "files": meta.get("files", []),
            "author": "independent sub-agent given only the property text and a scratch worktree",
            "confirmed_by_me": log,
            "agent_ran": meta.get("ran", ""),
        }
        json.dump(out, open(f"{dst}/meta.json", "w"), indent=1)
    return name, ok, log


if __name__ == "__main__":
    with ThreadPoolExecutor(8) as ex:
        for name, ok, log in ex.map(one, sys.argv[1:]):
            print(("KEEP " if ok else "DROP ") + name + ("" if ok else "  " + json.dumps(log)[:1500]))
