#!/venv/bin/python
"""Run every check against behaviour-preserving refactorings (patches) and report alarms.

usage: run_benign.py DIR_WITH_patch.diff [...]   -> exit 1 from a check = false alarm, exit 2 = undecidable
"""
import os, re, shutil, subprocess, sys, tempfile
from concurrent.futures import ThreadPoolExecutor

PY = "/venv/bin/python"
PROPS = [f"C{i:02d}" for i in range(1, 21)]


def run(d):
    tmp = tempfile.mkdtemp(prefix="gvben_", dir="/dev/shm")
    try:
        dst = os.path.join(tmp, "repo")
        os.makedirs(dst)
        subprocess.run(f"cd /repo && git ls-files -z gaftools docs | xargs -0 cp --parents -t {dst}", shell=True, check=True)
        p = subprocess.run(f"cd {dst} && git init -q . && git apply {d}/patch.diff", shell=True, capture_output=True, text=True)
        if p.returncode != 0:
            return d, {"error": p.stderr[-200:]}
        res = {}
        for pr in PROPS:
            env = dict(os.environ, GV_EVIDENCE_DIR=os.path.join(tmp, "ev"))
            q = subprocess.run([PY, "-m", "gv", "check", pr, "--repo", dst], cwd="/verif", capture_output=True, text=True, env=env)
            if q.returncode != 0:
                lines = [l for l in q.stdout.splitlines() if l.startswith(("  rule", "ANALYSIS-ERROR"))]
                res[pr] = (q.returncode, lines[:3])
        return d, res
    finally:
        shutil.rmtree(tmp, ignore_errors=True)


if __name__ == "__main__":
    dirs = sys.argv[1:]
    with ThreadPoolExecutor(8) as ex:
        n1 = n2 = 0
        for d, res in ex.map(run, dirs):
            name = "/".join(d.rstrip("/").split("/")[-2:])
            if not res:
                print(f"{name}: silent")
                continue
            for pr, v in res.items() if isinstance(res, dict) and "error" not in res else []:
                code, lines = v
                n1 += code == 1
                n2 += code == 2
                print(f"{name}: {pr} exit {code}: " + " | ".join(l.strip()[:260] for l in lines))
            if "error" in res:
                print(f"{name}: {res}")
        print(f"false alarms (exit 1): {n1}; undecidable (exit 2): {n2}")
