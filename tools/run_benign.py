#!/venv/bin/python
"""Run every check against behaviour-preserving refactorings (patches) and report alarms.

usage: run_benign.py DIR_WITH_patch.diff [...]   -> exit 1 from a check = false alarm, exit 2 = undecidable
"""
import os, re, shutil, subprocess, sys, tempfile
from concurrent.futures import ThreadPoolExecutor

sys.path.insert(0, "/verif")
from gv.patching import apply_patch  # noqa: E402

PY = "/venv/bin/python"
BASE = os.environ.get("GV_PATCH_BASE")  # commit the patches were written against (default: see gv/patching.py)
PROPS = [f"C{i:02d}" for i in range(1, 21)]


def run(d):
    tmp = tempfile.mkdtemp(prefix="gvben_", dir="/dev/shm")
    try:
        dst = os.path.join(tmp, "repo")
        os.makedirs(dst)
        subprocess.run(f"cd /repo && git ls-files -z gaftools docs | xargs -0 cp --parents -t {dst}", shell=True, check=True)
        subprocess.run(["git", "init", "-q", "."], cwd=dst, capture_output=True)
        ok, msg = apply_patch(dst, os.path.join(os.path.abspath(d), "patch.diff"), BASE)
        if not ok:
            return d, {"error": msg}
        res = {}
        for pr in PROPS:
            env = dict(os.environ, GV_EVIDENCE_DIR=os.path.join(tmp, "ev"))
            q = subprocess.run([PY, "-m", "gv", "check", pr, "--repo", dst], cwd="/verif", capture_output=True, text=True, env=env)
            if q.returncode != 0:
                lines = [l for l in q.stdout.splitlines() if l.startswith(("  rule", "ANALYSIS-ERROR"))]
                res[pr] = (q.returncode, lines[:3])
        return d, res
    finally:
        shutil.rmtree(tmp, ignore_errors=True)


if __name__ == "__main__":
    dirs = sys.argv[1:]
    with ThreadPoolExecutor(8) as ex:
        n1 = n2 = 0
        for d, res in ex.map(run, dirs):
            name = "/".join(d.rstrip("/").split("/")[-2:])
            if not res:
                print(f"{name}: silent")
                continue
            for pr, v in res.items() if isinstance(res, dict) and "error" not in res else []:
                code, lines = v
                n1 += code == 1
                n2 += code == 2
                print(f"{name}: {pr} exit {code}: " + " | ".join(l.strip()[:260] for l in lines))
            if "error" in res:
                print(f"{name}: {res}")
        print(f"false alarms (exit 1): {n1}; undecidable (exit 2): {n2}")
