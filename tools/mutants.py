#!/venv/bin/python
"""mutants.py [--files GLOB ...] [--jobs N] [--out FILE] [--limit N]

Systematic first-order mutants of gaftools (development aid, not a registered check): every mutant that still compiles
and passes the project's own test suite is analysed by all twenty checks in a scratch copy.  Mutants on which every check
stays silent (exit 0) are the blind-spot candidates to triage by hand: equivalent, outside every property, or a miss.

Nothing here is part of the deciding step: the checks themselves never run gaftools; only this tool runs the *project's*
test suite, to discard mutants the tests already catch (the properties are about what the tests cannot see)."""
import argparse
import ast
import concurrent.futures as cf
import json
import os
import re
import shutil
import subprocess
import sys
import tempfile

REPO = "/repo"
PROPS = [f"C{i:02d}" for i in range(1, 21)]

CMP = {ast.Lt: "<=", ast.LtE: "<", ast.Gt: ">=", ast.GtE: ">", ast.Eq: "!=", ast.NotEq: "==", ast.Is: "is not", ast.IsNot: "is", ast.In: "not in", ast.NotIn: "in"}
CMP_TXT = {ast.Lt: "<", ast.LtE: "<=", ast.Gt: ">", ast.GtE: ">=", ast.Eq: "==", ast.NotEq: "!=", ast.Is: "is", ast.IsNot: "is not", ast.In: "in", ast.NotIn: "not in"}
BIN = {ast.Add: ("+", "-"), ast.Sub: ("-", "+"), ast.Mult: ("*", "//"), ast.FloorDiv: ("//", "*"), ast.Div: ("/", "*")}
STR_SWAP = {"<": ">", ">": "<", "+": "-", "-": "+", "\t": " ", "start": "end", "end": "start", "rb": "r", "r": "rb", "w": "a", "M": "=", "=": "X", "I": "D", "D": "I"}


def seg(src_lines, node):
    if node.lineno != node.end_lineno:
        return None
    return src_lines[node.lineno - 1][node.col_offset : node.end_col_offset]


def mutants_of(path, src):
    tree = ast.parse(src)
    lines = src.splitlines(keepends=True)
    # byte offsets vs str offsets: ast gives utf8 byte offsets; sources are ascii except a few comments: guard per line
    out = []

    def add(lineno, c0, c1, new, kind, what):
        line = lines[lineno - 1]
        if not line.isascii():
            return
        out.append({"file": path, "line": lineno, "c0": c0, "c1": c1, "new": new, "kind": kind, "what": what, "old": line[c0:c1]})

    def between(a, b, tok):
        """position of operator token `tok` between nodes a and b (same line only)"""
        if a.end_lineno != b.lineno:
            return None
        line = lines[a.end_lineno - 1]
        s = line[a.end_col_offset : b.col_offset]
        m = re.search(r"(?<![<>=!])" + re.escape(tok) + r"(?![<>=])" if tok in ("<", ">", "<=", ">=", "==", "!=") else r"\b" + re.escape(tok) + r"\b" if tok[0].isalpha() else re.escape(tok), s)
        if not m:
            return None
        return a.end_lineno, a.end_col_offset + m.start(), a.end_col_offset + m.end()

    parents = {}
    for p in ast.walk(tree):
        for c in ast.iter_child_nodes(p):
            parents[c] = p
    docstrings = set()
    for n in ast.walk(tree):
        if isinstance(n, (ast.FunctionDef, ast.ClassDef, ast.Module)) and n.body and isinstance(n.body[0], ast.Expr) and isinstance(n.body[0].value, ast.Constant) and isinstance(n.body[0].value.value, str):
            docstrings.add(n.body[0].value)

    def in_logging(n):
        while n in parents:
            n = parents[n]
            if isinstance(n, ast.Call):
                f = ast.unparse(n.func)
                if f.startswith(("logger.", "logging.", "timers", "arg", "parser.", "subparser")) or f in ("print", "arg", "CommandLineError", "ValueError", "log_memory_usage"):
                    return True
            if isinstance(n, ast.FunctionDef) and n.name in ("add_arguments",):
                return True
        return False

    for n in ast.walk(tree):
        if isinstance(n, ast.Compare):
            left = n.left
            for op, right in zip(n.ops, n.comparators):
                pos = between(left, right, CMP_TXT[type(op)])
                if pos:
                    add(*pos, CMP[type(op)], "cmp", f"{CMP_TXT[type(op)]} -> {CMP[type(op)]}")
                    if isinstance(op, (ast.Lt, ast.LtE, ast.Gt, ast.GtE)):
                        flip = {ast.Lt: ">", ast.LtE: ">=", ast.Gt: "<", ast.GtE: "<="}[type(op)]
                        add(*pos, flip, "cmp", f"{CMP_TXT[type(op)]} -> {flip}")
                left = right
        elif isinstance(n, ast.BinOp) and type(n.op) in BIN and not in_logging(n):
            tok, new = BIN[type(n.op)]
            if isinstance(n.op, ast.Add) and (isinstance(n.left, ast.Constant) and isinstance(n.left.value, str) or isinstance(n.right, ast.Constant) and isinstance(n.right.value, str)):
                continue
            pos = between(n.left, n.right, tok)
            if pos:
                add(*pos, new, "binop", f"{tok} -> {new}")
        elif isinstance(n, ast.BoolOp):
            for a, b in zip(n.values, n.values[1:]):
                tok = "and" if isinstance(n.op, ast.And) else "or"
                pos = between(a, b, tok)
                if pos:
                    add(*pos, "or" if tok == "and" else "and", "boolop", f"{tok} -> {'or' if tok == 'and' else 'and'}")
        elif isinstance(n, ast.UnaryOp) and isinstance(n.op, ast.Not) and n.lineno == n.operand.lineno:
            add(n.lineno, n.col_offset, n.operand.col_offset, "", "not", "drop not")
        elif isinstance(n, ast.Constant) and n not in docstrings and not in_logging(n) and n.lineno == n.end_lineno:
            v = n.value
            if isinstance(v, bool):
                add(n.lineno, n.col_offset, n.end_col_offset, str(not v), "const", f"{v} -> {not v}")
            elif isinstance(v, int):
                add(n.lineno, n.col_offset, n.end_col_offset, str(v + 1), "const", f"{v} -> {v + 1}")
                if v != 0:
                    add(n.lineno, n.col_offset, n.end_col_offset, str(v - 1), "const", f"{v} -> {v - 1}")
                else:
                    add(n.lineno, n.col_offset, n.end_col_offset, "-1", "const", "0 -> -1")
            elif isinstance(v, str) and v in STR_SWAP and not isinstance(parents.get(n), ast.JoinedStr):
                add(n.lineno, n.col_offset, n.end_col_offset, repr(STR_SWAP[v]), "str", f"{v!r} -> {STR_SWAP[v]!r}")
        elif isinstance(n, (ast.Continue, ast.Break)):
            add(n.lineno, n.col_offset, n.end_col_offset, "pass", "flow", f"{type(n).__name__.lower()} -> pass")
            if isinstance(n, ast.Continue):
                add(n.lineno, n.col_offset, n.end_col_offset, "break", "flow", "continue -> break")
            else:
                add(n.lineno, n.col_offset, n.end_col_offset, "continue", "flow", "break -> continue")
        elif isinstance(n, ast.Expr) and isinstance(n.value, ast.Call) and not in_logging(n.value) and n.lineno == n.end_lineno:
            f = ast.unparse(n.value.func)
            if not f.startswith(("logger.", "logging.", "print", "timers.", "log_memory")):
                add(n.lineno, n.col_offset, n.end_col_offset, "pass", "del-call", f"delete `{ast.unparse(n)[:50]}`")
        elif isinstance(n, ast.AugAssign) and n.lineno == n.end_lineno:
            add(n.lineno, n.col_offset, n.end_col_offset, "pass", "del-aug", f"delete `{ast.unparse(n)[:50]}`")
        elif isinstance(n, ast.Assign) and n.lineno == n.end_lineno and isinstance(n.targets[0], (ast.Subscript, ast.Attribute)) and not (isinstance(parents.get(n), ast.FunctionDef) and parents[n].name == "__init__"):
            add(n.lineno, n.col_offset, n.end_col_offset, "pass", "del-store", f"delete `{ast.unparse(n)[:50]}`")
        elif isinstance(n, ast.Call) and len(n.args) >= 2 and not n.keywords and not in_logging(n) and all(isinstance(a, (ast.Name, ast.Attribute, ast.Subscript, ast.Constant)) for a in n.args[:2]) and n.args[0].lineno == n.args[1].end_lineno:
            a, b = n.args[0], n.args[1]
            sa, sb = seg(lines, a), seg(lines, b)
            if sa and sb and sa != sb and not ast.unparse(n.func).startswith(("logger.", "print", "isinstance", "getattr", "setattr")):
                line = lines[a.lineno - 1]
                add(a.lineno, a.col_offset, b.end_col_offset, sb + line[a.end_col_offset : b.col_offset] + sa, "swap-args", f"swap args of {ast.unparse(n.func)[:30]}")
        elif isinstance(n, ast.If) and n.orelse and not isinstance(n.orelse[0], ast.If):
            pass
        elif isinstance(n, ast.Slice) and n.lower is not None and n.upper is None and n.lower.lineno == n.lower.end_lineno and isinstance(n.lower, ast.Constant):
            pass
        elif isinstance(n, ast.Return) and n.value is not None and isinstance(n.value, ast.Name) and False:
            pass
    # de-duplicate
    seen = set()
    res = []
    for m in out:
        k = (m["line"], m["c0"], m["c1"], m["new"])
        if k not in seen:
            seen.add(k)
            res.append(m)
    return res


def make_copy(dst):
    os.makedirs(dst)
    subprocess.run(f"cd {REPO} && git ls-files -z | xargs -0 cp --parents -t {dst}", shell=True, check=True, capture_output=True)


def run_one(args):
    idx, m, workdir, run_checks = args
    wd = os.path.join(workdir, f"w{os.getpid()}")
    if not os.path.isdir(wd):
        make_copy(wd)
    path = os.path.join(wd, m["file"])
    orig = open(os.path.join(REPO, m["file"])).read()
    lines = orig.splitlines(keepends=True)
    ln = lines[m["line"] - 1]
    lines[m["line"] - 1] = ln[: m["c0"]] + m["new"] + ln[m["c1"] :]
    new_src = "".join(lines)
    res = dict(m, idx=idx)
    try:
        try:
            compile(new_src, path, "exec")
        except SyntaxError:
            res["status"] = "syntax"
            return res
        open(path, "w").write(new_src)
        try:
            q = subprocess.run(["/venv/bin/python", "-m", "pytest", "-q", "-x", "-p", "no:cacheprovider", "--timeout=60"], cwd=wd, capture_output=True, text=True, timeout=300, env=dict(os.environ, PYTHONDONTWRITEBYTECODE="1"))
            passed = q.returncode == 0
        except subprocess.TimeoutExpired:
            passed = False
        if not passed:
            res["status"] = "killed-by-tests"
            return res
        res["status"] = "survived"
        if run_checks:
            res["checks"] = {}
            ev = os.path.join(wd, ".ev")
            for pr in PROPS:
                c = subprocess.run(["/venv/bin/python", "-m", "gv", "check", pr, "--repo", wd], cwd="/verif", capture_output=True, text=True, env=dict(os.environ, GV_EVIDENCE_DIR=ev))
                if c.returncode:
                    rules = sorted(set(re.findall(r"rule[= ](R[\d.]+)", c.stdout)))
                    res["checks"][pr] = [c.returncode, rules]
            shutil.rmtree(ev, ignore_errors=True)
        return res
    finally:
        open(path, "w").write(orig)


def main():
    ap = argparse.ArgumentParser()
    ap.add_argument("--files", nargs="*", default=None)
    ap.add_argument("--jobs", type=int, default=12)
    ap.add_argument("--out", default="/dev/shm/mutants.jsonl")
    ap.add_argument("--limit", type=int, default=0)
    ap.add_argument("--no-checks", action="store_true")
    a = ap.parse_args()
    files = a.files or subprocess.run("git ls-files 'gaftools/*.py' 'gaftools/cli/*.py'", shell=True, cwd=REPO, capture_output=True, text=True).stdout.split()
    files = [f for f in files if not f.endswith(("__init__.py", "_version.py", "timer.py", "__main__.py"))]
    ms = []
    for f in files:
        ms += mutants_of(f, open(os.path.join(REPO, f)).read())
    if a.limit:
        import random

        random.Random(1).shuffle(ms)
        ms = ms[: a.limit]
    print(f"{len(ms)} mutants over {len(files)} files", flush=True)
    workdir = tempfile.mkdtemp(prefix="gvmut_", dir="/dev/shm")
    done = 0
    try:
        with cf.ProcessPoolExecutor(a.jobs) as ex, open(a.out, "w") as out:
            for r in ex.map(run_one, [(i, m, workdir, not a.no_checks) for i, m in enumerate(ms)], chunksize=1):
                out.write(json.dumps(r) + "\n")
                out.flush()
                done += 1
                if done % 50 == 0:
                    print(f"{done}/{len(ms)}", flush=True)
    finally:
        shutil.rmtree(workdir, ignore_errors=True)


if __name__ == "__main__":
    main()
