#!/venv/bin/python
"""try_patch.py PATCHDIR [PROP ...]: apply PATCHDIR/patch.diff to a scratch copy and run the named checks (all by default), printing full output."""
import os, shutil, subprocess, sys, tempfile

d = sys.argv[1]
props = sys.argv[2:] or [f"C{i:02d}" for i in range(1, 21)]
tmp = tempfile.mkdtemp(prefix="gvtry_", dir="/dev/shm")
try:
    dst = os.path.join(tmp, "repo")
    os.makedirs(dst)
    subprocess.run(f"cd /repo && git ls-files -z gaftools docs | xargs -0 cp --parents -t {dst}", shell=True, check=True)
    subprocess.run(["git", "init", "-q", "."], cwd=dst, check=True, capture_output=True)
    sys.path.insert(0, "/verif")
    from gv.patching import apply_patch

    ok, msg = apply_patch(dst, os.path.join(os.path.abspath(d), "patch.diff"), os.environ.get("GV_PATCH_BASE"))
    if not ok:
        sys.exit("patch does not apply: " + msg)
    if msg:
        print("(" + msg + " onto the current tree)")
    for pr in props:
        env = dict(os.environ, GV_EVIDENCE_DIR=os.path.join(tmp, "ev"))
        q = subprocess.run(["/venv/bin/python", "-m", "gv", "check", pr, "--repo", dst], cwd="/verif", capture_output=True, text=True, env=env)
        out = [l for l in q.stdout.splitlines() if not l.startswith(("KNOWN-FINDING", "WARNING"))]
        print(f"--- {pr} exit {q.returncode}")
        if q.returncode:
            print("\n".join(out[-25:])[:6000])
            print(q.stderr[-1500:])
finally:
    shutil.rmtree(tmp, ignore_errors=True)
